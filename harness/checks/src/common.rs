//! helpers shared by the property modules

use crate::api::Int;
use vlib::runner::{outcome, Outcome};
use proptest::prelude::*;
use vlib::gen::{self, Shape};
use vlib::{Pat, Z};

pub fn ld<T: Int>(p: &Pat) -> T {
    T::load(&p.0)
}
pub fn st<T: Int>(x: &T) -> Pat {
    Pat(x.store())
}
/// the W-bit pattern of z mod 2^W
pub fn pz<T: Int>(z: &Z) -> Pat {
    Pat(z.to_le_wrapped((T::W / 8) as usize))
}
pub fn fits<T: Int>(z: &Z) -> bool {
    z.fits(T::W as u64, T::SIGNED)
}
pub fn clamp<T: Int>(z: &Z) -> Pat {
    pz::<T>(&z.clamp_to(T::W as u64, T::SIGNED))
}
pub fn zmin<T: Int>() -> Z {
    Z::min_of(T::W as u64, T::SIGNED)
}
pub fn zmax<T: Int>() -> Z {
    Z::max_of(T::W as u64, T::SIGNED)
}

/// Check the whole projection family of one operation against the exact result `e`:
/// overflowing = (wrap(e), !fits(e)); checked = None iff flag; wrapping = wrap(e);
/// saturating = clamp(e); strict = panic iff flag, value otherwise.
pub struct Family<T: Int> {
    pub overflowing: Option<(T, bool)>,
    pub checked: Option<Option<T>>,
    pub wrapping: Option<T>,
    pub saturating: Option<T>,
    pub strict: Option<Outcome<T>>,
}
impl<T: Int> Default for Family<T> {
    fn default() -> Self {
        Family { overflowing: None, checked: None, wrapping: None, saturating: None, strict: None }
    }
}

pub fn check_family<T: Int>(what: &str, e: &Z, fam: Family<T>) -> Result<(), String> {
    let flag = !fits::<T>(e);
    let wrapped = pz::<T>(e);
    if let Some((v, f)) = fam.overflowing {
        vlib::ck!(format!("overflowing_{what} value"), st(&v), wrapped.clone());
        vlib::ck!(format!("overflowing_{what} flag"), f, flag);
    }
    if let Some(c) = fam.checked {
        vlib::ck!(format!("checked_{what}"), c.map(|v| st(&v)), if flag { None } else { Some(wrapped.clone()) });
    }
    if let Some(w) = fam.wrapping {
        vlib::ck!(format!("wrapping_{what}"), st(&w), wrapped.clone());
    }
    if let Some(s) = fam.saturating {
        vlib::ck!(format!("saturating_{what}"), st(&s), clamp::<T>(e));
    }
    if let Some(s) = fam.strict {
        let exp: Outcome<Pat> = if flag { Outcome::Panic(String::new()) } else { Outcome::Returned(wrapped.clone()) };
        vlib::ck!(format!("strict_{what}"), s.map(|v| st(&v)), exp);
    }
    Ok(())
}

pub fn oc<T: Int>(f: impl FnOnce() -> T) -> Outcome<Pat> {
    outcome(f).map(|v| st(&v))
}

/// number of digit boundaries crossed by a carry (or borrow) when adding (subtracting) the two
/// patterns, and the longest run of consecutive boundaries crossed
pub fn carry_crossings(a: &[u8], b: &[u8], cin: bool, sub: bool, digit_bytes: usize) -> (usize, usize) {
    let mut carry = cin as i32;
    let mut crossings = 0;
    let mut run = 0;
    let mut best = 0;
    for i in 0..a.len() {
        let t = if sub { a[i] as i32 - b[i] as i32 - carry } else { a[i] as i32 + b[i] as i32 + carry };
        carry = if sub { (t < 0) as i32 } else { (t > 255) as i32 };
        if (i + 1) % digit_bytes == 0 && i + 1 < a.len() {
            if carry != 0 {
                crossings += 1;
                run += 1;
                best = best.max(run);
            } else {
                run = 0;
            }
        }
    }
    (crossings, best)
}

/// number of significant digits of a pattern (as unsigned)
pub fn sig_digits(p: &[u8], digit_bytes: usize) -> usize {
    let mut top = p.len();
    while top > 0 && p[top - 1] == 0 {
        top -= 1;
    }
    (top + digit_bytes - 1) / digit_bytes
}

pub fn job_name<T: Int>(sub: &str) -> String {
    format!("{}@{}", sub, T::cfg())
}

/// source patterns for a cast from `src` to `tgt`: structured source patterns, plus target
/// boundary values embedded in the source (bits above the target width set / sign extension
/// crossing digit boundaries)
pub fn cast_sources(src: Shape, tgt: Shape) -> BoxedStrategy<Pat> {
    let tw = tgt.bits() as u64;
    prop_oneof![
        4 => gen::pattern(src),
        3 => (gen::pattern(tgt), any::<bool>(), -3i64..=3).prop_map(move |(p, signed, k)| {
            // a target-shaped value, shifted by k * 2^Wt, wrapped into the source
            let z = Z::from_le(&p.0, signed).add(&Z::pow2(tw).mul_i(k));
            Pat(z.to_le_wrapped(src.bytes))
        }),
        2 => (0u8..8, -2i64..=2).prop_map(move |(sel, e)| {
            let z = match sel {
                0 => Z::pow2(tw - 1),
                1 => Z::pow2(tw - 1).neg(),
                2 => Z::pow2(tw),
                3 => Z::pow2(tw).neg(),
                4 => Z::zero(),
                5 => Z::pow2(tw + 1),
                6 => Z::pow2(src.bits() as u64 - 1),
                _ => Z::pow2(tw).add(&Z::pow2(tw - 1)),
            };
            Pat(z.add_i(e).to_le_wrapped(src.bytes))
        }),
    ]
    .boxed()
}

