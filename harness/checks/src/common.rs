//! helpers shared by the property modules

use crate::api::Int;
use vlib::runner::{outcome, Outcome};
use proptest::prelude::*;
use vlib::gen::{self, Shape};
use vlib::{Pat, Z};

pub fn ld<T: Int>(p: &Pat) -> T {
    T::load(&p.0)
}
pub fn st<T: Int>(x: &T) -> Pat {
    Pat(x.store())
}
/// the W-bit pattern of z mod 2^W
pub fn pz<T: Int>(z: &Z) -> Pat {
    Pat(z.to_le_wrapped((T::W / 8) as usize))
}
pub fn fits<T: Int>(z: &Z) -> bool {
    z.fits(T::W as u64, T::SIGNED)
}
pub fn clamp<T: Int>(z: &Z) -> Pat {
    pz::<T>(&z.clamp_to(T::W as u64, T::SIGNED))
}
pub fn zmin<T: Int>() -> Z {
    Z::min_of(T::W as u64, T::SIGNED)
}
pub fn zmax<T: Int>() -> Z {
    Z::max_of(T::W as u64, T::SIGNED)
}

/// Check the whole projection family of one operation against the exact result `e`:
/// overflowing = (wrap(e), !fits(e)); checked = None iff flag; wrapping = wrap(e);
/// saturating = clamp(e); strict = panic iff flag, value otherwise.
pub struct Family<T: Int> {
    pub overflowing: Option<(T, bool)>,
    pub checked: Option<Option<T>>,
    pub wrapping: Option<T>,
    pub saturating: Option<T>,
    pub strict: Option<Outcome<T>>,
}
impl<T: Int> Default for Family<T> {
    fn default() -> Self {
        Family { overflowing: None, checked: None, wrapping: None, saturating: None, strict: None }
    }
}

pub fn check_family<T: Int>(what: &str, e: &Z, fam: Family<T>) -> Result<(), String> {
    let flag = !fits::<T>(e);
    let wrapped = pz::<T>(e);
    if let Some((v, f)) = fam.overflowing {
        vlib::ck!(format!("overflowing_{what} value"), st(&v), wrapped.clone());
        vlib::ck!(format!("overflowing_{what} flag"), f, flag);
    }
    if let Some(c) = fam.checked {
        vlib::ck!(format!("checked_{what}"), c.map(|v| st(&v)), if flag { None } else { Some(wrapped.clone()) });
    }
    if let Some(w) = fam.wrapping {
        vlib::ck!(format!("wrapping_{what}"), st(&w), wrapped.clone());
    }
    if let Some(s) = fam.saturating {
        vlib::ck!(format!("saturating_{what}"), st(&s), clamp::<T>(e));
    }
    if let Some(s) = fam.strict {
        let exp: Outcome<Pat> = if flag { Outcome::Panic(String::new()) } else { Outcome::Returned(wrapped.clone()) };
        vlib::ck!(format!("strict_{what}"), s.map(|v| st(&v)), exp);
    }
    Ok(())
}

pub fn oc<T: Int>(f: impl FnOnce() -> T) -> Outcome<Pat> {
    outcome(f).map(|v| st(&v))
}

/// number of digit boundaries crossed by a carry (or borrow) when adding (subtracting) the two
/// patterns, and the longest run of consecutive boundaries crossed
pub fn carry_crossings(a: &[u8], b: &[u8], cin: bool, sub: bool, digit_bytes: usize) -> (usize, usize) {
    let mut carry = cin as i32;
    let mut crossings = 0;
    let mut run = 0;
    let mut best = 0;
    for i in 0..a.len() {
        let t = if sub { a[i] as i32 - b[i] as i32 - carry } else { a[i] as i32 + b[i] as i32 + carry };
        carry = if sub { (t < 0) as i32 } else { (t > 255) as i32 };
        if (i + 1) % digit_bytes == 0 && i + 1 < a.len() {
            if carry != 0 {
                crossings += 1;
                run += 1;
                best = best.max(run);
            } else {
                run = 0;
            }
        }
    }
    (crossings, best)
}

/// number of significant digits of a pattern (as unsigned)
pub fn sig_digits(p: &[u8], digit_bytes: usize) -> usize {
    let mut top = p.len();
    while top > 0 && p[top - 1] == 0 {
        top -= 1;
    }
    (top + digit_bytes - 1) / digit_bytes
}

pub fn job_name<T: Int>(sub: &str) -> String {
    format!("{}@{}", sub, T::cfg())
}

/// source patterns for a cast from `src` to `tgt`: structured source patterns, plus target
/// boundary values embedded in the source (bits above the target width set / sign extension
/// crossing digit boundaries)
pub fn cast_sources(src: Shape, tgt: Shape) -> BoxedStrategy<Pat> {
    let tw = tgt.bits() as u64;
    prop_oneof![
        4 => gen::pattern(src),
        3 => (gen::pattern(tgt), any::<bool>(), -3i64..=3).prop_map(move |(p, signed, k)| {
            // a target-shaped value, shifted by k * 2^Wt, wrapped into the source
            let z = Z::from_le(&p.0, signed).add(&Z::pow2(tw).mul_i(k));
            Pat(z.to_le_wrapped(src.bytes))
        }),
        // ALMOST PURE PADDING: a target-shaped low part; above it the source digits are all zero (or all
        // ones) except for one to three digits drawn from the extreme-value table (1, 2^(d-1), MAX, 2^k ...).
        // Representability is decided by the digits above the target width, so a test that combines them
        // lossily (sums, folds, looks at some of them) is wrong exactly here
        2 => (gen::pattern(tgt), any::<bool>(), proptest::collection::vec((any::<u16>(), gen::digit_value(src.digit_bytes)), 1..4)).prop_map(move |(low, ones, devs)| {
            let db = src.digit_bytes;
            let n = src.n();
            let first = ((tw as usize + 8 * db - 1) / (8 * db)).min(n); // first source digit entirely above the target
            let mut out = vec![if ones { 0xffu8 } else { 0u8 }; src.bytes];
            let keep = low.0.len().min(src.bytes);
            out[..keep].copy_from_slice(&low.0[..keep]);
            if first < n {
                for (pos, v) in devs {
                    let i = first + pos as usize % (n - first);
                    out[i * db..(i + 1) * db].copy_from_slice(&v.to_le_bytes()[..db]);
                }
            }
            Pat(out)
        }),
        2 => (0u8..8, -2i64..=2).prop_map(move |(sel, e)| {
            let z = match sel {
                0 => Z::pow2(tw - 1),
                1 => Z::pow2(tw - 1).neg(),
                2 => Z::pow2(tw),
                3 => Z::pow2(tw).neg(),
                4 => Z::zero(),
                5 => Z::pow2(tw + 1),
                6 => Z::pow2(src.bits() as u64 - 1),
                _ => Z::pow2(tw).add(&Z::pow2(tw - 1)),
            };
            Pat(z.add_i(e).to_le_wrapped(src.bytes))
        }),
    ]
    .boxed()
}


// ------------------------------------------------------------------------------------------------
// deterministic position sweeps: every bit position of the type, enumerated (not sampled)
// ------------------------------------------------------------------------------------------------

/// 2^k + e as a W-bit pattern (wrapped)
pub fn pow2_pat(sh: Shape, k: u32, e: i64) -> Pat {
    Pat(Z::pow2(k as u64).add_i(e).to_le_wrapped(sh.bytes))
}

/// for every bit position k < W: the values 2^k - 1, 2^k, 2^k + 1 and their negations / complements
/// the bit positions swept: all of them (`full`, and always for types up to 1088 bits), otherwise a
/// sparse selection (a few hundred positions)
pub fn positions(sh: Shape, full: bool) -> Vec<u32> {
    let w = sh.bits();
    let d = sh.digit_bits();
    // sparse selection: around the boundaries of about 32 evenly spread digits (always the first
    // two and the last two), every 61st position, and the top three positions
    let n = w / d;
    let stride = (n / 32).max(1);
    (0..w)
        .filter(|k| {
            let digit = k / d;
            let near_boundary = k % d == 0 || k % d == 1 || k % d == d - 1;
            // digit indices around 256: where a digit index, a digit count or a per-digit sum narrowed to
            // 8 bits (or, for sums of u8 digits, to 16 bits) first wraps
            let chosen_digit = digit % stride == 0 || digit <= 1 || digit + 2 >= n || (254..=259).contains(&digit);
            full || w <= 1100 || (near_boundary && chosen_digit) || k % 61 == 0 || *k >= w - 3
        })
        .collect()
}

pub fn position_values(sh: Shape, full: bool) -> impl Iterator<Item = Pat> {
    positions(sh, full).into_iter().flat_map(move |k| {
        [-1i64, 0, 1].into_iter().flat_map(move |e| {
            let z = Z::pow2(k as u64).add_i(e);
            [Pat(z.to_le_wrapped(sh.bytes)), Pat(z.neg().to_le_wrapped(sh.bytes)), Pat(z.add_i(1).neg().to_le_wrapped(sh.bytes))]
        })
    })
}

/// operand pairs that put a carry / borrow / product edge at every bit position
pub fn position_pairs(sh: Shape, full: bool) -> impl Iterator<Item = (Pat, Pat)> {
    let w = sh.bits();
    let one = Pat(Z::one().to_le_wrapped(sh.bytes));
    let ones = Pat(Z::from_i64(-1).to_le_wrapped(sh.bytes));
    positions(sh, full).into_iter().flat_map(move |k| {
        let one = one.clone();
        let ones = ones.clone();
        let j = w - 1 - k;
        vec![
            (pow2_pat(sh, k, -1), one.clone()),              // (2^k - 1) + 1: carry chain of k bits
            (pow2_pat(sh, k, 0), ones.clone()),              // 2^k + (-1): borrow chain
            (pow2_pat(sh, k, 0), one.clone()),               // 2^k - 1
            (pow2_pat(sh, k, 0), pow2_pat(sh, k, 0)),        // 2^k + 2^k, 2^k - 2^k, 2^k * 2^k
            (pow2_pat(sh, k, -1), pow2_pat(sh, k, -1)),
            (pow2_pat(sh, k, 0), pow2_pat(sh, j, 0)),        // 2^k * 2^(W-1-k) = 2^(W-1): signed edge
            (pow2_pat(sh, k, 1), pow2_pat(sh, j, 1)),
            (pow2_pat(sh, k, -1), pow2_pat(sh, j + 1 - (j + 1 == w) as u32, 0)),
            (Pat(Z::pow2(k as u64).neg().to_le_wrapped(sh.bytes)), pow2_pat(sh, j, 0)),   // -2^k * 2^(W-1-k) = MIN
            (Pat(Z::pow2(k as u64).neg().to_le_wrapped(sh.bytes)), Pat(Z::pow2(j as u64).neg().to_le_wrapped(sh.bytes))),
        ]
    })
}

/// [p-bit mantissa | guard | tail] patterns at every bit length: the integers on which an int -> float
/// conversion has to round (copy of C14's generator, used by C19 for ToPrimitive::to_f32 / to_f64)
pub fn float_rounding_ints(sh: Shape, signed: bool) -> BoxedStrategy<Pat> {
    let w = sh.bits() as u64;
    let maxbits = if signed { w - 1 } else { w };
    let wrap = move |z: Z| Pat(z.to_le_wrapped(sh.bytes));
    let lengths = prop_oneof![
        6 => 1u64..=maxbits,
        2 => prop_oneof![Just(23u64), Just(24), Just(25), Just(26), Just(52), Just(53), Just(54), Just(55), Just(64), Just(65)],
        3 => prop_oneof![Just(127u64), Just(128), Just(129), Just(1023), Just(1024), Just(1025)],
        2 => (0u64..3).prop_map(move |k| maxbits - k.min(maxbits - 1)),
    ];
    let shaped = (lengths, any::<bool>(), any::<u64>(), 0u8..3, 0u8..8, gen::pattern(sh), any::<bool>()).prop_map(move |(l, f32_target, mant, mant_class, tail_class, noise, neg)| {
        let l = l.min(maxbits).max(1);
        let p = if f32_target { 24u64 } else { 53 };
        if l <= p {
            let z = Z::from_u64(mant).mod_2k(l.saturating_sub(1)).add(&Z::pow2(l - 1));
            return wrap(if neg && signed { z.neg() } else { z });
        }
        // kept mantissa: top bit set, parity chosen by class
        let m = match mant_class {
            0 => (mant & ((1u64 << p) - 1)) | (1u64 << (p - 1)) | 1,          // odd
            1 => ((mant & ((1u64 << p) - 1)) | (1u64 << (p - 1))) & !1,       // even
            _ => (1u64 << p) - 1,                                            // all ones: rounding up carries into the exponent
        };
        let t = l - p; // number of discarded bits
        let tail = match tail_class {
            0 => Z::zero(),                                       // 0...0   exact
            1 => Z::one(),                                        // 0...01  just above
            2 => Z::pow2(t - 1),                                  // 10...0  exact tie
            3 => Z::pow2(t - 1).add_i(1),                         // 10...01 just above the tie
            4 => Z::pow2(t - 1).add_i(-1),                        // 01...1  just below the tie
            5 => Z::pow2(t).add_i(-1),                            // 1...1
            6 => Z::pow2(t - 1).add(&Z::pow2(t / 2)).mod_2k(t),  // tie + one far lower bit
            _ => Z::from_le_unsigned(&noise.0).mod_2k(t),
        };
        let z = Z::from_u64(m).shl(t).add(&tail.mod_2k(t));
        wrap(if neg && signed { z.neg() } else { z })
    });
    prop_oneof![8 => shaped, 2 => gen::pattern(sh), 1 => gen::boundary(sh)].boxed()
}

