pub mod api;
pub mod common;
pub use api::{Int, SInt, UInt, Val};
