pub mod api;
pub mod common;
pub mod forms;
pub use api::{Int, SInt, UInt, Val};
