pub mod api;
pub mod common;
pub mod forms;
pub mod siblings;
pub use api::{Int, SInt, UInt, Val};
