//! Sibling entry points of one operation: the std operator forms (by value / by reference /
//! op-assign, every shift-amount type) and the num_traits forwarders must agree with the inherent
//! method. C17 and C18 run all of them; the checks of the topic properties (C01 add/sub/neg, C02
//! mul, C03 div/rem, C05 shifts, C06 bit logic and counts, C07 comparison and sign, C08 pow) run
//! the group that belongs to their topic as a `siblings` job, so that a regression confined to one
//! rarely used entry point is also reported by the check of the operation it belongs to.
//! The oracle here is differential (entry point vs inherent method / const twin); the inherent
//! methods themselves are compared with the reference integer by the topic checks.

use crate::api::{Int, SInt};
use crate::common::*;
use crate::forms::{Forms, NegForms, FORM_NAMES};
use num_integer::{Integer, Roots};
use num_traits::ops::overflowing::{OverflowingAdd, OverflowingSub};
use num_traits::{
    Bounded, CheckedAdd, CheckedDiv, CheckedEuclid, CheckedMul, CheckedNeg, CheckedRem, CheckedShl, CheckedShr, CheckedSub, Euclid, MulAdd, MulAddAssign, Num, One, Pow, PrimInt,
    Saturating, SaturatingAdd, SaturatingMul, SaturatingSub, WrappingAdd, WrappingMul, WrappingNeg, WrappingShl, WrappingShr, WrappingSub, Zero,
};
use std::cmp::Ordering;
use vlib::runner::{outcome, Obs, Outcome};
use vlib::{ck, Pat, Z};

pub trait NT:
    Int + Integer + Roots + PrimInt + Euclid + CheckedEuclid + Bounded + Zero + One + Num + Pow<u32, Output = Self> + MulAdd<Output = Self> + MulAddAssign
    + CheckedAdd + CheckedSub + CheckedMul + CheckedDiv + CheckedRem + CheckedNeg + CheckedShl + CheckedShr
    + WrappingAdd + WrappingSub + WrappingMul + WrappingNeg + WrappingShl + WrappingShr
    + Saturating + SaturatingAdd + SaturatingSub + SaturatingMul + OverflowingAdd + OverflowingSub
{
}
impl<T> NT for T where
    T: Int + Integer + Roots + PrimInt + Euclid + CheckedEuclid + Bounded + Zero + One + Num + Pow<u32, Output = T> + MulAdd<Output = T> + MulAddAssign
        + CheckedAdd + CheckedSub + CheckedMul + CheckedDiv + CheckedRem + CheckedNeg + CheckedShl + CheckedShr
        + WrappingAdd + WrappingSub + WrappingMul + WrappingNeg + WrappingShl + WrappingShr
        + Saturating + SaturatingAdd + SaturatingSub + SaturatingMul + OverflowingAdd + OverflowingSub
{
}

/// which part of the entry-point table to run
#[derive(Clone, Copy, PartialEq, Eq, Debug)]
pub enum Group {
    All,
    AddSub,
    Mul,
    DivRem,
    Shift,
    Bits,
    Cmp,
    Pow,
}

fn ret<T: Int>(z: &Z) -> Outcome<Pat> {
    Outcome::Returned(pz::<T>(z))
}

/// the six operand forms of every binary operator against the const inherent twin (same value, same
/// panic outcome), `!`, and the comparison traits against their const twins
pub fn binop_forms<T: Forms>(g: Group, c: &(Pat, Pat), obs: &mut Obs) -> Result<(), String> {
    let (a, b): (T, T) = (ld(&c.0), ld(&c.1));
    obs.nt();
    let ops: [(&str, Group, fn(T, T) -> T, fn(T, T, u8) -> T); 8] = [
        ("+", Group::AddSub, |a, b| a.c_add(b), T::f_add),
        ("-", Group::AddSub, |a, b| a.c_sub(b), T::f_sub),
        ("*", Group::Mul, |a, b| a.c_mul(b), T::f_mul),
        ("/", Group::DivRem, |a, b| a.c_div(b), T::f_div),
        ("%", Group::DivRem, |a, b| a.c_rem(b), T::f_rem),
        ("&", Group::Bits, |a, b| a.c_bitand(b), T::f_bitand),
        ("|", Group::Bits, |a, b| a.c_bitor(b), T::f_bitor),
        ("^", Group::Bits, |a, b| a.c_bitxor(b), T::f_bitxor),
    ];
    for (name, og, twin, forms) in ops {
        if g != Group::All && g != og {
            continue;
        }
        let reference = oc(|| twin(a, b));
        obs.label_if(reference.is_panic(), "outcome is a panic (all forms must panic)");
        for form in 0..6u8 {
            ck!(format!("`{}` with op = {} vs const twin", FORM_NAMES[form as usize], name), oc(|| forms(a, b, form)), reference.clone());
        }
    }
    if g == Group::All || g == Group::Bits {
        ck!("!a", oc(|| T::f_not(a, 0)), oc(|| a.c_not()));
        ck!("!&a", oc(|| T::f_not(a, 1)), oc(|| a.c_not()));
    }
    if g == Group::All || g == Group::Cmp {
        // Ord / PartialOrd / Eq trait methods against the const inherent twins
        ck!("PartialEq::eq", PartialEq::eq(&a, &b), a.c_eq(&b));
        ck!("PartialEq::ne", PartialEq::ne(&a, &b), a.c_ne(&b));
        ck!("Ord::cmp", Ord::cmp(&a, &b), a.c_cmp(&b));
        ck!("PartialOrd::partial_cmp", PartialOrd::partial_cmp(&a, &b), Some(a.c_cmp(&b)));
        ck!("PartialOrd::lt/le/gt/ge", (PartialOrd::lt(&a, &b), PartialOrd::le(&a, &b), PartialOrd::gt(&a, &b), PartialOrd::ge(&a, &b)), (a.c_lt(&b), a.c_le(&b), a.c_gt(&b), a.c_ge(&b)));
        ck!("Ord::max", st(&Ord::max(a, b)), st(&a.c_max(b)));
        ck!("Ord::min", st(&Ord::min(a, b)), st(&a.c_min(b)));
        let (lo, hi) = if a.c_cmp(&b) == Ordering::Greater { (b, a) } else { (a, b) };
        ck!("Ord::clamp", st(&Ord::clamp(a ^ b, lo, hi)), st(&(a ^ b).c_clamp(lo, hi)));
    }
    Ok(())
}

pub fn neg_forms<I: SInt + NegForms>(c: &Pat, obs: &mut Obs) -> Result<(), String> {
    let a: I = ld(c);
    let reference = oc(|| a.c_neg());
    obs.nt();
    obs.label_if(reference.is_panic(), "outcome is a panic (all forms must panic)");
    ck!("-a", oc(|| I::f_neg(a, 0)), reference.clone());
    ck!("-&a", oc(|| I::f_neg(a, 1)), reference.clone());
    Ok(())
}

/// shifts by every primitive amount type: all forms equal the by-value form, which equals the
/// inherent shl/shr(s as u32) whenever 0 <= s <= u32::MAX; bnum-typed amounts below BITS
pub fn shift_forms<T: Forms>(c: &(Pat, i128), obs: &mut Obs) -> Result<(), String> {
    let a: T = ld(&c.0);
    let s: i128 = c.1;
    obs.nt();
    macro_rules! one {
        ($($f:ident : $t:ty),*) => {$(
            if let Ok(amt) = <$t>::try_from(s) {
                for left in [true, false] {
                    let by_value = oc(|| T::$f(a, left, amt, 0));
                    obs.label_if(by_value.is_panic(), "shift outcome is a panic");
                    for form in 1..6u8 {
                        ck!(format!("shift {} by {}: `{}` vs by-value form", if left { "left" } else { "right" }, stringify!($t), FORM_NAMES[form as usize]), oc(|| T::$f(a, left, amt, form)), by_value.clone());
                    }
                    if let Ok(u) = u32::try_from(s) {
                        ck!(format!("shift {} by {} == inherent(s as u32)", if left { "left" } else { "right" }, stringify!($t)), by_value.clone(), oc(|| if left { a.c_shl(u) } else { a.c_shr(u) }));
                    }
                }
            }
        )*};
    }
    one!(f_shift_u8: u8, f_shift_u16: u16, f_shift_u32: u32, f_shift_u64: u64, f_shift_u128: u128, f_shift_usize: usize,
         f_shift_i8: i8, f_shift_i16: i16, f_shift_i32: i32, f_shift_i64: i64, f_shift_i128: i128, f_shift_isize: isize);
    if s >= 0 && s < T::W as i128 {
        let u = s as u32;
        for left in [true, false] {
            let reference = oc(|| if left { a.c_shl(u) } else { a.c_shr(u) });
            for which in 0..6u8 {
                for form in 0..6u8 {
                    // None: the amount does not fit the (1- or 3-digit) amount type
                    let got = outcome(|| T::f_shift_bnum(a, left, which, u, form).map(|v| st(&v)));
                    if let Outcome::Returned(None) = got {
                        continue;
                    }
                    obs.label("bnum-typed shift amount");
                    ck!(format!("shift {} by bnum-typed amount (kind {}) `{}`", if left { "left" } else { "right" }, which, FORM_NAMES[form as usize]), got, reference.clone().map(Some));
                }
            }
        }
    }
    Ok(())
}

/// Sum / Product over a sequence equal the left folds with + and * (same panic outcome)
pub fn fold_forms<T: Forms>(g: Group, c: &Vec<Pat>, obs: &mut Obs) -> Result<(), String> {
    let xs: Vec<T> = c.iter().map(|p| ld::<T>(p)).collect();
    obs.nt_if(xs.len() >= 2);
    obs.label_if(xs.is_empty(), "empty sequence");
    if g == Group::All || g == Group::AddSub {
        let fold_sum = oc(|| xs.iter().fold(T::k_zero(), |acc, &x| acc + x));
        obs.label_if(fold_sum.is_panic(), "fold overflows (panic in dbg)");
        ck!("Sum by value", oc(|| T::f_sum(&xs, false)), fold_sum.clone());
        ck!("Sum by reference", oc(|| T::f_sum(&xs, true)), fold_sum.clone());
    }
    if g == Group::All || g == Group::Mul {
        let fold_prod = oc(|| xs.iter().fold(T::k_one(), |acc, &x| acc * x));
        obs.label_if(fold_prod.is_panic(), "fold overflows (panic in dbg)");
        ck!("Product by value", oc(|| T::f_product(&xs, false)), fold_prod.clone());
        ck!("Product by reference", oc(|| T::f_product(&xs, true)), fold_prod.clone());
    }
    Ok(())
}

/// num_traits forwarders against the inherent methods (and the reference integer where the trait
/// documents a value of its own)
pub fn nt_forwarders<T: NT>(g: Group, c: &(Pat, Pat, Pat, u32), obs: &mut Obs) -> Result<(), String> {
    let (a, b, k): (T, T, T) = (ld(&c.0), ld(&c.1), ld(&c.2));
    let s = c.3 % T::W;
    let e = c.3 % 40;
    obs.nt();
    let all = g == Group::All;
    if all || g == Group::Shift {
        // shifts: signed_shr is arithmetic on the pattern, unsigned_shr is logical, for U and I alike
        let zs = Z::from_le_signed(&c.0 .0);
        let zu = Z::from_le_unsigned(&c.0 .0);
        ck!("PrimInt::signed_shr", oc(|| PrimInt::signed_shr(a, s)), ret::<T>(&zs.shr_floor(s as u64)));
        ck!("PrimInt::unsigned_shr", oc(|| PrimInt::unsigned_shr(a, s)), ret::<T>(&zu.shr_floor(s as u64)));
        ck!("PrimInt::signed_shl", oc(|| PrimInt::signed_shl(a, s)), ret::<T>(&zu.shl(s as u64)));
        ck!("PrimInt::unsigned_shl", oc(|| PrimInt::unsigned_shl(a, s)), ret::<T>(&zu.shl(s as u64)));
        ck!("PrimInt::rotate_left", st(&PrimInt::rotate_left(a, c.3)), st(&Int::rotate_left(a, c.3)));
        ck!("PrimInt::rotate_right", st(&PrimInt::rotate_right(a, c.3)), st(&Int::rotate_right(a, c.3)));
        ck!("CheckedShl", CheckedShl::checked_shl(&a, c.3).map(|v| st(&v)), Int::checked_shl(a, c.3).map(|v| st(&v)));
        ck!("CheckedShr", CheckedShr::checked_shr(&a, c.3).map(|v| st(&v)), Int::checked_shr(a, c.3).map(|v| st(&v)));
        ck!("WrappingShl", st(&WrappingShl::wrapping_shl(&a, c.3)), st(&Int::wrapping_shl(a, c.3)));
        ck!("WrappingShr", st(&WrappingShr::wrapping_shr(&a, c.3)), st(&Int::wrapping_shr(a, c.3)));
    }
    if all || g == Group::Bits {
        ck!("PrimInt counts", (PrimInt::count_ones(a), PrimInt::count_zeros(a), PrimInt::leading_zeros(a), PrimInt::trailing_zeros(a), PrimInt::leading_ones(a), PrimInt::trailing_ones(a)),
            (Int::count_ones(a), Int::count_zeros(a), Int::leading_zeros(a), Int::trailing_zeros(a), Int::leading_ones(a), Int::trailing_ones(a)));
        ck!("PrimInt::swap_bytes", st(&PrimInt::swap_bytes(a)), st(&Int::swap_bytes(a)));
        ck!("PrimInt::reverse_bits", st(&PrimInt::reverse_bits(a)), st(&Int::reverse_bits(a)));
    }
    if all {
        ck!("PrimInt::to_be/to_le/from_be/from_le", (st(&PrimInt::to_be(a)), st(&PrimInt::to_le(a)), st(&<T as PrimInt>::from_be(a)), st(&<T as PrimInt>::from_le(a))), (st(&Int::to_be(a)), st(&Int::to_le(a)), st(&<T as Int>::from_be(a)), st(&<T as Int>::from_le(a))));
        ck!("Bounded", (st(&T::min_value()), st(&T::max_value())), (pz::<T>(&zmin::<T>()), pz::<T>(&zmax::<T>())));
        ck!("Zero/One", (st(&<T as Zero>::zero()), st(&<T as One>::one()), Zero::is_zero(&a), One::is_one(&a)), (pz::<T>(&Z::zero()), pz::<T>(&Z::one()), a.z().is_zero(), a.z() == Z::one()));
        let text = a.to_str_radix(2 + c.3 % 35);
        ck!("Num::from_str_radix", <T as Num>::from_str_radix(&text, 2 + c.3 % 35).ok().map(|v| st(&v)), Some(c.0.clone()));
        ck!("Num::from_str_radix (invalid)", <T as Num>::from_str_radix("12 3", 10).is_err(), true);
    }
    if all || g == Group::Pow {
        ck!("PrimInt::pow", oc(|| PrimInt::pow(a, e)), oc(|| Int::pow(a, e)));
        ck!("Pow<u32>", oc(|| Pow::pow(a, e)), oc(|| Int::pow(a, e)));
    }
    if all || g == Group::Mul {
        // MulAdd: a*b + k whenever the exact result is representable
        let ma = a.z().mul(&b.z()).add(&k.z());
        if fits::<T>(&ma) && fits::<T>(&a.z().mul(&b.z())) {
            obs.label("mul_add representable");
            ck!("MulAdd::mul_add", oc(|| MulAdd::mul_add(a, b, k)), ret::<T>(&ma));
            ck!("MulAddAssign::mul_add_assign", oc(|| { let mut x = a; MulAddAssign::mul_add_assign(&mut x, b, k); x }), ret::<T>(&ma));
        }
        ck!("CheckedMul", CheckedMul::checked_mul(&a, &b).map(|v| st(&v)), Int::checked_mul(a, b).map(|v| st(&v)));
        ck!("WrappingMul", st(&WrappingMul::wrapping_mul(&a, &b)), st(&Int::wrapping_mul(a, b)));
        ck!("SaturatingMul", st(&SaturatingMul::saturating_mul(&a, &b)), st(&Int::saturating_mul(a, b)));
    }
    if all || g == Group::AddSub {
        ck!("CheckedAdd", CheckedAdd::checked_add(&a, &b).map(|v| st(&v)), Int::checked_add(a, b).map(|v| st(&v)));
        ck!("CheckedSub", CheckedSub::checked_sub(&a, &b).map(|v| st(&v)), Int::checked_sub(a, b).map(|v| st(&v)));
        ck!("CheckedNeg", CheckedNeg::checked_neg(&a).map(|v| st(&v)), Int::checked_neg(a).map(|v| st(&v)));
        ck!("WrappingAdd", st(&WrappingAdd::wrapping_add(&a, &b)), st(&Int::wrapping_add(a, b)));
        ck!("WrappingSub", st(&WrappingSub::wrapping_sub(&a, &b)), st(&Int::wrapping_sub(a, b)));
        ck!("WrappingNeg", st(&WrappingNeg::wrapping_neg(&a)), st(&Int::wrapping_neg(a)));
        ck!("Saturating::saturating_add", st(&Saturating::saturating_add(a, b)), st(&Int::saturating_add(a, b)));
        ck!("Saturating::saturating_sub", st(&Saturating::saturating_sub(a, b)), st(&Int::saturating_sub(a, b)));
        ck!("SaturatingAdd", st(&SaturatingAdd::saturating_add(&a, &b)), st(&Int::saturating_add(a, b)));
        ck!("SaturatingSub", st(&SaturatingSub::saturating_sub(&a, &b)), st(&Int::saturating_sub(a, b)));
        ck!("OverflowingAdd", { let (v, f) = OverflowingAdd::overflowing_add(&a, &b); (st(&v), f) }, { let (v, f) = Int::overflowing_add(a, b); (st(&v), f) });
        ck!("OverflowingSub", { let (v, f) = OverflowingSub::overflowing_sub(&a, &b); (st(&v), f) }, { let (v, f) = Int::overflowing_sub(a, b); (st(&v), f) });
    }
    if all || g == Group::DivRem {
        ck!("CheckedDiv", CheckedDiv::checked_div(&a, &b).map(|v| st(&v)), Int::checked_div(a, b).map(|v| st(&v)));
        ck!("CheckedRem", CheckedRem::checked_rem(&a, &b).map(|v| st(&v)), Int::checked_rem(a, b).map(|v| st(&v)));
        ck!("CheckedEuclid::checked_div_euclid", CheckedEuclid::checked_div_euclid(&a, &b).map(|v| st(&v)), Int::checked_div_euclid(a, b).map(|v| st(&v)));
        ck!("CheckedEuclid::checked_rem_euclid", CheckedEuclid::checked_rem_euclid(&a, &b).map(|v| st(&v)), Int::checked_rem_euclid(a, b).map(|v| st(&v)));
    }
    Ok(())
}

// ------------------------------------------------------------------------------------------------
// generators and the `siblings` job of the topic checks

use crate::api::UInt;
use proptest::prelude::*;
use vlib::gen::{self, Shape};
use vlib::runner::Job;

pub fn heavy_pairs(sh: Shape) -> BoxedStrategy<(Pat, Pat)> {
    prop_oneof![
        4 => gen::pattern_pair(sh),
        2 => (gen::boundary(sh), gen::boundary(sh)),
        2 => (gen::pattern(sh), gen::boundary(sh)),
        1 => gen::pattern(sh).prop_map(move |a| (a, Pat(vec![0u8; sh.bytes]))),
    ]
    .boxed()
}

pub fn shift_amounts(sh: Shape) -> BoxedStrategy<i128> {
    let w = sh.bits() as i128;
    prop_oneof![
        3 => prop_oneof![Just(0i128), Just(1), Just(w - 1), Just(w), Just(w + 1)],
        1 => prop_oneof![Just(-1i128), Just(i8::MIN as i128), Just(i64::MIN as i128), Just(u32::MAX as i128), Just(u32::MAX as i128 + 1), Just(i128::MAX), Just(255i128), Just(65535)],
        6 => 0i128..w,
        1 => -300i128..300,
    ]
    .boxed()
}

/// sequences of 0..=8 elements; small elements so that sums/products sometimes fit
pub fn fold_seqs(sh: Shape) -> BoxedStrategy<Vec<Pat>> {
    let elem = prop_oneof![2 => gen::pattern(sh), 3 => (0u64..20).prop_map(move |x| Pat(Z::from_u64(x).to_le_wrapped(sh.bytes))), 1 => (-5i64..0).prop_map(move |x| Pat(Z::from_i64(x).to_le_wrapped(sh.bytes)))];
    proptest::collection::vec(elem, 0..=8).boxed()
}

pub fn forwarder_cases(sh: Shape) -> BoxedStrategy<(Pat, Pat, Pat, u32)> {
    (gen::pattern_pair(sh), prop_oneof![gen::pattern(sh), (0u64..50).prop_map(move |x| Pat(Z::from_u64(x).to_le_wrapped(sh.bytes)))], gen::amount(sh)).prop_map(|((a, b), k, s)| (a, b, k, s)).boxed()
}

/// one `siblings@<cfg>` job for a topic check: the operator forms and num_traits forwarders of the
/// topic's own operations (`quick` cases per part in the quick tier)
pub fn topic_jobs<U, I>(jobs: &mut Vec<Job>, g: Group, quick: u32, factor: u32)
where
    U: UInt + Int<I = I> + Forms + NT,
    I: SInt + Int<U = U> + Forms + NegForms + NT,
{
    let sh: Shape = U::shape();
    let big = U::W > 1100;
    let q = move |n: u32| if big { (n / 6).max(12) } else { n };
    jobs.push(Job::new(job_name::<U>("siblings"), move |ctx| {
        if matches!(g, Group::AddSub | Group::Mul | Group::DivRem | Group::Bits | Group::Cmp) {
            ctx.run("forms_u", ctx.budget(q(quick), factor), heavy_pairs(sh), move |c: &(Pat, Pat), obs: &mut Obs| binop_forms::<U>(g, c, obs));
            ctx.run("forms_i", ctx.budget(q(quick), factor), heavy_pairs(sh), move |c: &(Pat, Pat), obs: &mut Obs| binop_forms::<I>(g, c, obs));
        }
        if g == Group::AddSub {
            ctx.run("neg", ctx.budget(q(quick / 2), factor), prop_oneof![gen::pattern(sh), gen::boundary(sh)], neg_forms::<I>);
        }
        if matches!(g, Group::AddSub | Group::Mul) {
            ctx.run("folds_u", ctx.budget(q(quick / 2), factor), fold_seqs(sh), move |c: &Vec<Pat>, obs: &mut Obs| fold_forms::<U>(g, c, obs));
            ctx.run("folds_i", ctx.budget(q(quick / 2), factor), fold_seqs(sh), move |c: &Vec<Pat>, obs: &mut Obs| fold_forms::<I>(g, c, obs));
        }
        if g == Group::Shift {
            ctx.run("shift_forms_u", ctx.budget(q(quick), factor), (gen::pattern(sh), shift_amounts(sh)), shift_forms::<U>);
            ctx.run("shift_forms_i", ctx.budget(q(quick), factor), (gen::pattern(sh), shift_amounts(sh)), shift_forms::<I>);
        }
        if g != Group::Cmp {
            ctx.run("numtraits_u", ctx.budget(q(quick), factor), forwarder_cases(sh), move |c: &(Pat, Pat, Pat, u32), obs: &mut Obs| nt_forwarders::<U>(g, c, obs));
            ctx.run("numtraits_i", ctx.budget(q(quick), factor), forwarder_cases(sh), move |c: &(Pat, Pat, Pat, u32), obs: &mut Obs| nt_forwarders::<I>(g, c, obs));
        }
    }));
}


// ------------------------------------------------------------------------------------------------
// AsPrimitive (num_traits) against the As cast: used by C19 and, as a `siblings` job, by C09

use bnum::cast::{As, CastFrom};
use num_traits::AsPrimitive;

/// AsPrimitive::as_ equals the As cast (differential)
pub fn as_primitive_forms<T>(c: &(Pat, Pat, u64), obs: &mut Obs) -> Result<(), String>
where
    T: Int + AsPrimitive<u8> + AsPrimitive<u16> + AsPrimitive<u32> + AsPrimitive<u64> + AsPrimitive<u128> + AsPrimitive<usize>
        + AsPrimitive<i8> + AsPrimitive<i16> + AsPrimitive<i32> + AsPrimitive<i64> + AsPrimitive<i128> + AsPrimitive<isize> + AsPrimitive<f32> + AsPrimitive<f64>
        + AsPrimitive<T::U> + AsPrimitive<T::I> + AsPrimitive<T::Fam1U> + AsPrimitive<T::Fam3I> + AsPrimitive<T::Fam1I> + AsPrimitive<T::Fam3U>,
    T: CastFrom<u8> + CastFrom<u16> + CastFrom<u32> + CastFrom<u64> + CastFrom<u128> + CastFrom<usize> + CastFrom<i8> + CastFrom<i16> + CastFrom<i32> + CastFrom<i64> + CastFrom<i128> + CastFrom<isize>
        + CastFrom<f32> + CastFrom<f64> + CastFrom<char> + CastFrom<bool>,
    u8: CastFrom<T> + AsPrimitive<T>, u16: CastFrom<T> + AsPrimitive<T>, u32: CastFrom<T> + AsPrimitive<T>, u64: CastFrom<T> + AsPrimitive<T>, u128: CastFrom<T> + AsPrimitive<T>, usize: CastFrom<T> + AsPrimitive<T>,
    i8: CastFrom<T> + AsPrimitive<T>, i16: CastFrom<T> + AsPrimitive<T>, i32: CastFrom<T> + AsPrimitive<T>, i64: CastFrom<T> + AsPrimitive<T>, i128: CastFrom<T> + AsPrimitive<T>, isize: CastFrom<T> + AsPrimitive<T>,
    f32: CastFrom<T> + AsPrimitive<T>, f64: CastFrom<T> + AsPrimitive<T>, char: AsPrimitive<T>, bool: AsPrimitive<T>,
    T::U: CastFrom<T>, T::I: CastFrom<T>, T::Fam1U: CastFrom<T>, T::Fam3I: CastFrom<T>, T::Fam1I: CastFrom<T>, T::Fam3U: CastFrom<T>,
{
    let x: T = ld(&c.0);
    obs.nt();
    macro_rules! to {
        ($($p:ty),*) => {$( ck!(concat!("AsPrimitive<", stringify!($p), ">::as_ == As cast"), outcome(|| AsPrimitive::<$p>::as_(x).to_le_bytes().to_vec()), outcome(|| As::as_::<$p>(x).to_le_bytes().to_vec())); )*};
    }
    to!(u8, u16, u32, u64, u128, usize, i8, i16, i32, i64, i128, isize);
    ck!("AsPrimitive<f32>", outcome(|| AsPrimitive::<f32>::as_(x).to_bits()), outcome(|| As::as_::<f32>(x).to_bits()));
    ck!("AsPrimitive<f64>", outcome(|| AsPrimitive::<f64>::as_(x).to_bits()), outcome(|| As::as_::<f64>(x).to_bits()));
    // primitive -> bnum
    macro_rules! from {
        ($($p:ty),*) => {$(
            {
                let nb = std::mem::size_of::<$p>();
                let v = <$p>::from_le_bytes(c.1 .0[..nb].try_into().unwrap());
                ck!(concat!("AsPrimitive<bnum> for ", stringify!($p)), oc(|| AsPrimitive::<T>::as_(v)), oc(|| As::as_::<T>(v)));
            }
        )*};
    }
    from!(u8, u16, u32, u64, u128, usize, i8, i16, i32, i64, i128, isize);
    let f = f64::from_bits(c.2);
    ck!("AsPrimitive<bnum> for f64", oc(|| AsPrimitive::<T>::as_(f)), oc(|| As::as_::<T>(f)));
    let g = f32::from_bits(c.2 as u32);
    ck!("AsPrimitive<bnum> for f32", oc(|| AsPrimitive::<T>::as_(g)), oc(|| As::as_::<T>(g)));
    let ch = char::from_u32((c.2 % 0x11_0000) as u32).unwrap_or('x');
    ck!("AsPrimitive<bnum> for char", oc(|| AsPrimitive::<T>::as_(ch)), oc(|| As::as_::<T>(ch)));
    ck!("AsPrimitive<bnum> for bool", oc(|| AsPrimitive::<T>::as_(c.2 & 1 == 1)), oc(|| As::as_::<T>(c.2 & 1 == 1)));
    // bnum -> bnum within the digit family
    ck!("AsPrimitive<U> (same family)", outcome(|| Pat(AsPrimitive::<T::U>::as_(x).store())), outcome(|| Pat(As::as_::<T::U>(x).store())));
    ck!("AsPrimitive<I> (same family)", outcome(|| Pat(AsPrimitive::<T::I>::as_(x).store())), outcome(|| Pat(As::as_::<T::I>(x).store())));
    ck!("AsPrimitive<1-digit U> (same family)", outcome(|| Pat(AsPrimitive::<T::Fam1U>::as_(x).store())), outcome(|| Pat(As::as_::<T::Fam1U>(x).store())));
    ck!("AsPrimitive<3-digit I> (same family)", outcome(|| Pat(AsPrimitive::<T::Fam3I>::as_(x).store())), outcome(|| Pat(As::as_::<T::Fam3I>(x).store())));
    ck!("AsPrimitive<1-digit I> (same family)", outcome(|| Pat(AsPrimitive::<T::Fam1I>::as_(x).store())), outcome(|| Pat(As::as_::<T::Fam1I>(x).store())));
    ck!("AsPrimitive<3-digit U> (same family)", outcome(|| Pat(AsPrimitive::<T::Fam3U>::as_(x).store())), outcome(|| Pat(As::as_::<T::Fam3U>(x).store())));
    // and against the reference value, so that a slip shared by As and AsPrimitive would still show (C09 covers As itself)
    ck!("AsPrimitive<3-digit U> value", outcome(|| AsPrimitive::<T::Fam3U>::as_(x).z()), Outcome::Returned(x.z().wrap(<T::Fam3U as Int>::W as u64, false)));
    ck!("AsPrimitive<3-digit I> value", outcome(|| AsPrimitive::<T::Fam3I>::as_(x).z()), Outcome::Returned(x.z().wrap(<T::Fam3I as Int>::W as u64, true)));
    Ok(())
}


/// (value, 16 source bytes for the primitive -> bnum direction, float / char / bool bits)
pub fn as_primitive_cases(sh: Shape) -> BoxedStrategy<(Pat, Pat, u64)> {
    let src = prop_oneof![
        3 => proptest::collection::vec(any::<u8>(), 16),
        2 => proptest::collection::vec(prop_oneof![Just(0u8), Just(0xffu8), Just(0x80u8), Just(0x7fu8), Just(1u8)], 16),
        1 => (0usize..16).prop_map(|k| (0..16).map(|i| if i < k { 0xffu8 } else { 0 }).collect::<Vec<u8>>()),
    ]
    .prop_map(Pat);
    (prop_oneof![3 => gen::pattern(sh), 1 => gen::boundary(sh)], src, any::<u64>()).boxed()
}
