//! Thin forwarding traits over bnum's inherent (non-trait) API so that checks can be ordinary
//! generic functions. Every trait method forwards to the inherent method of the same name
//! (`<BUintD8<N>>::name(..)` resolves to the inherent method; `unconditional_recursion` is denied
//! so a missing inherent method cannot silently resolve to the trait method itself).
#![deny(unconditional_recursion)]

use bnum::errors::ParseIntError;
use core::cmp::Ordering;
use core::fmt::{self, Debug, Display};
use core::hash::Hash;
use core::ops::*;
use core::str::FromStr;
use vlib::gen::{bytes_from_digits, digits_from_bytes, Digit, Shape};
use vlib::Z;

// ---------------------------------------------------------------------------------------------
// method lists (one place; used for the trait declaration and for the four impls)
// ---------------------------------------------------------------------------------------------

macro_rules! common_methods {
    ($cb:ident $($x:tt)*) => { $cb! { [$($x)*]
        val {
            fn count_ones(self) -> u32;
            fn count_zeros(self) -> u32;
            fn leading_zeros(self) -> u32;
            fn trailing_zeros(self) -> u32;
            fn leading_ones(self) -> u32;
            fn trailing_ones(self) -> u32;
            fn rotate_left(self, n: u32) -> Self;
            fn rotate_right(self, n: u32) -> Self;
            fn unbounded_shl(self, n: u32) -> Self;
            fn unbounded_shr(self, n: u32) -> Self;
            fn swap_bytes(self) -> Self;
            fn reverse_bits(self) -> Self;
            fn pow(self, e: u32) -> Self;
            fn div_euclid(self, rhs: Self) -> Self;
            fn rem_euclid(self, rhs: Self) -> Self;
            fn is_power_of_two(self) -> bool;
            fn midpoint(self, rhs: Self) -> Self;
            fn ilog2(self) -> u32;
            fn ilog10(self) -> u32;
            fn ilog(self, base: Self) -> u32;
            fn next_multiple_of(self, rhs: Self) -> Self;
            fn div_floor(self, rhs: Self) -> Self;
            fn div_ceil(self, rhs: Self) -> Self;
            fn abs_diff(self, rhs: Self) -> Self::U;

            fn checked_add(self, rhs: Self) -> Option<Self>;
            fn checked_sub(self, rhs: Self) -> Option<Self>;
            fn checked_mul(self, rhs: Self) -> Option<Self>;
            fn checked_div(self, rhs: Self) -> Option<Self>;
            fn checked_div_euclid(self, rhs: Self) -> Option<Self>;
            fn checked_rem(self, rhs: Self) -> Option<Self>;
            fn checked_rem_euclid(self, rhs: Self) -> Option<Self>;
            fn checked_neg(self) -> Option<Self>;
            fn checked_shl(self, n: u32) -> Option<Self>;
            fn checked_shr(self, n: u32) -> Option<Self>;
            fn checked_pow(self, e: u32) -> Option<Self>;
            fn checked_next_multiple_of(self, rhs: Self) -> Option<Self>;
            fn checked_ilog(self, base: Self) -> Option<u32>;
            fn checked_ilog2(self) -> Option<u32>;
            fn checked_ilog10(self) -> Option<u32>;

            fn overflowing_add(self, rhs: Self) -> (Self, bool);
            fn overflowing_sub(self, rhs: Self) -> (Self, bool);
            fn overflowing_mul(self, rhs: Self) -> (Self, bool);
            fn overflowing_div(self, rhs: Self) -> (Self, bool);
            fn overflowing_div_euclid(self, rhs: Self) -> (Self, bool);
            fn overflowing_rem(self, rhs: Self) -> (Self, bool);
            fn overflowing_rem_euclid(self, rhs: Self) -> (Self, bool);
            fn overflowing_neg(self) -> (Self, bool);
            fn overflowing_shl(self, n: u32) -> (Self, bool);
            fn overflowing_shr(self, n: u32) -> (Self, bool);
            fn overflowing_pow(self, e: u32) -> (Self, bool);

            fn wrapping_add(self, rhs: Self) -> Self;
            fn wrapping_sub(self, rhs: Self) -> Self;
            fn wrapping_mul(self, rhs: Self) -> Self;
            fn wrapping_div(self, rhs: Self) -> Self;
            fn wrapping_div_euclid(self, rhs: Self) -> Self;
            fn wrapping_rem(self, rhs: Self) -> Self;
            fn wrapping_rem_euclid(self, rhs: Self) -> Self;
            fn wrapping_neg(self) -> Self;
            fn wrapping_shl(self, n: u32) -> Self;
            fn wrapping_shr(self, n: u32) -> Self;
            fn wrapping_pow(self, e: u32) -> Self;

            fn saturating_add(self, rhs: Self) -> Self;
            fn saturating_sub(self, rhs: Self) -> Self;
            fn saturating_mul(self, rhs: Self) -> Self;
            fn saturating_div(self, rhs: Self) -> Self;
            fn saturating_pow(self, e: u32) -> Self;

            fn strict_add(self, rhs: Self) -> Self;
            fn strict_sub(self, rhs: Self) -> Self;
            fn strict_mul(self, rhs: Self) -> Self;
            fn strict_div(self, rhs: Self) -> Self;
            fn strict_div_euclid(self, rhs: Self) -> Self;
            fn strict_rem(self, rhs: Self) -> Self;
            fn strict_rem_euclid(self, rhs: Self) -> Self;
            fn strict_neg(self) -> Self;
            fn strict_shl(self, n: u32) -> Self;
            fn strict_shr(self, n: u32) -> Self;
            fn strict_pow(self, e: u32) -> Self;

            fn carrying_add(self, rhs: Self, carry: bool) -> (Self, bool);
            fn borrowing_sub(self, rhs: Self, borrow: bool) -> (Self, bool);

            fn to_be(self) -> Self;
            fn to_le(self) -> Self;
        }
        twin {
            // const inherent twins of operator traits; the trait method gets a `c_` prefix so that it
            // cannot be confused with the std operator traits' methods of the same name
            fn c_add = add(self, rhs: Self) -> Self;
            fn c_sub = sub(self, rhs: Self) -> Self;
            fn c_mul = mul(self, rhs: Self) -> Self;
            fn c_div = div(self, rhs: Self) -> Self;
            fn c_rem = rem(self, rhs: Self) -> Self;
            fn c_shl = shl(self, n: u32) -> Self;
            fn c_shr = shr(self, n: u32) -> Self;
            fn c_bitand = bitand(self, rhs: Self) -> Self;
            fn c_bitor = bitor(self, rhs: Self) -> Self;
            fn c_bitxor = bitxor(self, rhs: Self) -> Self;
            fn c_not = not(self) -> Self;
            fn c_max = max(self, rhs: Self) -> Self;
            fn c_min = min(self, rhs: Self) -> Self;
            fn c_clamp = clamp(self, lo: Self, hi: Self) -> Self;
        }
        reftwin {
            fn c_eq = eq(&self, rhs: &Self) -> bool;
            fn c_ne = ne(&self, rhs: &Self) -> bool;
            fn c_cmp = cmp(&self, rhs: &Self) -> Ordering;
            fn c_lt = lt(&self, rhs: &Self) -> bool;
            fn c_le = le(&self, rhs: &Self) -> bool;
            fn c_gt = gt(&self, rhs: &Self) -> bool;
            fn c_ge = ge(&self, rhs: &Self) -> bool;
        }
        unsafeval {
            fn unchecked_add(self, rhs: Self) -> Self;
            fn unchecked_sub(self, rhs: Self) -> Self;
            fn unchecked_mul(self, rhs: Self) -> Self;
            fn unchecked_shl(self, n: u32) -> Self;
            fn unchecked_shr(self, n: u32) -> Self;
        }
        byref {
            fn bits(&self) -> u32;
            fn bit(&self, i: u32) -> bool;
            fn is_zero(&self) -> bool;
            fn is_one(&self) -> bool;
            fn to_str_radix(&self, radix: u32) -> String;
            fn to_radix_be(&self, radix: u32) -> Vec<u8>;
            fn to_radix_le(&self, radix: u32) -> Vec<u8>;
        }
        stat {
            fn from_str_radix(s: &str, radix: u32) -> Result<Self, ParseIntError>;
            fn parse_bytes(b: &[u8], radix: u32) -> Option<Self>;
            fn parse_str_radix(s: &str, radix: u32) -> Self;
            fn from_radix_be(b: &[u8], radix: u32) -> Option<Self>;
            fn from_radix_le(b: &[u8], radix: u32) -> Option<Self>;
            fn from_be_slice(b: &[u8]) -> Option<Self>;
            fn from_le_slice(b: &[u8]) -> Option<Self>;
            fn from_be(x: Self) -> Self;
            fn from_le(x: Self) -> Self;
        }
    } };
}

macro_rules! uint_methods {
    ($cb:ident $($x:tt)*) => { $cb! { [$($x)*]
        val {
            fn checked_add_signed(self, rhs: Self::I) -> Option<Self>;
            fn overflowing_add_signed(self, rhs: Self::I) -> (Self, bool);
            fn wrapping_add_signed(self, rhs: Self::I) -> Self;
            fn saturating_add_signed(self, rhs: Self::I) -> Self;
            fn strict_add_signed(self, rhs: Self::I) -> Self;
            fn widening_mul(self, rhs: Self) -> (Self, Self);
            fn carrying_mul(self, rhs: Self, carry: Self) -> (Self, Self);
            fn checked_next_power_of_two(self) -> Option<Self>;
            fn wrapping_next_power_of_two(self) -> Self;
            fn next_power_of_two(self) -> Self;
            fn cast_signed(self) -> Self::I;
        }
        twin { }
        reftwin { }
        unsafeval { }
        byref { }
        stat {
            fn power_of_two(k: u32) -> Self;
        }
    } };
}

macro_rules! sint_methods {
    ($cb:ident $($x:tt)*) => { $cb! { [$($x)*]
        val {
            fn abs(self) -> Self;
            fn checked_abs(self) -> Option<Self>;
            fn overflowing_abs(self) -> (Self, bool);
            fn wrapping_abs(self) -> Self;
            fn saturating_abs(self) -> Self;
            fn strict_abs(self) -> Self;
            fn unsigned_abs(self) -> Self::U;
            fn saturating_neg(self) -> Self;
            fn checked_add_unsigned(self, rhs: Self::U) -> Option<Self>;
            fn overflowing_add_unsigned(self, rhs: Self::U) -> (Self, bool);
            fn wrapping_add_unsigned(self, rhs: Self::U) -> Self;
            fn saturating_add_unsigned(self, rhs: Self::U) -> Self;
            fn strict_add_unsigned(self, rhs: Self::U) -> Self;
            fn checked_sub_unsigned(self, rhs: Self::U) -> Option<Self>;
            fn overflowing_sub_unsigned(self, rhs: Self::U) -> (Self, bool);
            fn wrapping_sub_unsigned(self, rhs: Self::U) -> Self;
            fn saturating_sub_unsigned(self, rhs: Self::U) -> Self;
            fn strict_sub_unsigned(self, rhs: Self::U) -> Self;
            fn signum(self) -> Self;
            fn is_positive(self) -> bool;
            fn is_negative(self) -> bool;
            fn cast_unsigned(self) -> Self::U;
            fn to_bits(self) -> Self::U;
        }
        twin {
            fn c_neg = neg(self) -> Self;
        }
        reftwin { }
        unsafeval { }
        byref { }
        stat {
            fn from_bits(u: Self::U) -> Self;
        }
    } };
}

macro_rules! decl {
    ([] val { $(fn $m:ident(self $(, $a:ident : $t:ty)*) -> $r:ty;)* }
        twin { $(fn $tm:ident = $ti:ident(self $(, $ta:ident : $tt:ty)*) -> $tr:ty;)* }
        reftwin { $(fn $rm:ident = $ri:ident(&self $(, $ra:ident : $rt:ty)*) -> $rr:ty;)* }
        unsafeval { $(fn $um:ident(self $(, $ua:ident : $ut:ty)*) -> $ur:ty;)* }
        byref { $(fn $bm:ident(&self $(, $ba:ident : $bt:ty)*) -> $br:ty;)* }
        stat { $(fn $sm:ident($($sa:ident : $st:ty),*) -> $sr:ty;)* }
    ) => {
        $(fn $m(self $(, $a: $t)*) -> $r;)*
        $(fn $tm(self $(, $ta: $tt)*) -> $tr;)*
        $(fn $rm(&self $(, $ra: $rt)*) -> $rr;)*
        $(
            /// # Safety
            /// forwards to bnum's `unsafe fn` of the same name
            unsafe fn $um(self $(, $ua: $ut)*) -> $ur;
        )*
        $(fn $bm(&self $(, $ba: $bt)*) -> $br;)*
        $(fn $sm($($sa: $st),*) -> $sr;)*
    };
}

macro_rules! imp {
    ([$T:ty] val { $(fn $m:ident(self $(, $a:ident : $t:ty)*) -> $r:ty;)* }
        twin { $(fn $tm:ident = $ti:ident(self $(, $ta:ident : $tt:ty)*) -> $tr:ty;)* }
        reftwin { $(fn $rm:ident = $ri:ident(&self $(, $ra:ident : $rt:ty)*) -> $rr:ty;)* }
        unsafeval { $(fn $um:ident(self $(, $ua:ident : $ut:ty)*) -> $ur:ty;)* }
        byref { $(fn $bm:ident(&self $(, $ba:ident : $bt:ty)*) -> $br:ty;)* }
        stat { $(fn $sm:ident($($sa:ident : $st:ty),*) -> $sr:ty;)* }
    ) => {
        $(#[inline] fn $m(self $(, $a: $t)*) -> $r { <$T>::$m(self $(, $a)*) })*
        $(#[inline] fn $tm(self $(, $ta: $tt)*) -> $tr { <$T>::$ti(self $(, $ta)*) })*
        $(#[inline] fn $rm(&self $(, $ra: $rt)*) -> $rr { <$T>::$ri(self $(, $ra)*) })*
        $(#[inline] unsafe fn $um(self $(, $ua: $ut)*) -> $ur { <$T>::$um(self $(, $ua)*) })*
        $(#[inline] fn $bm(&self $(, $ba: $bt)*) -> $br { <$T>::$bm(self $(, $ba)*) })*
        $(#[inline] fn $sm($($sa: $st),*) -> $sr { <$T>::$sm($($sa),*) })*
    };
}

// ---------------------------------------------------------------------------------------------
// traits
// ---------------------------------------------------------------------------------------------

pub trait Int:
    Copy
    + Eq
    + Ord
    + Hash
    + Debug
    + Display
    + fmt::Binary
    + fmt::Octal
    + fmt::LowerHex
    + fmt::UpperHex
    + fmt::LowerExp
    + fmt::UpperExp
    + Default
    + FromStr<Err = ParseIntError>
    + Send
    + Sync
    + 'static
    + Add<Output = Self>
    + Sub<Output = Self>
    + Mul<Output = Self>
    + Div<Output = Self>
    + Rem<Output = Self>
    + BitAnd<Output = Self>
    + BitOr<Output = Self>
    + BitXor<Output = Self>
    + Not<Output = Self>
    + Shl<u32, Output = Self>
    + Shr<u32, Output = Self>
{
    type D: Digit + Debug + Eq;
    type U: UInt<U = Self::U, I = Self::I, D = Self::D>;
    type I: SInt<U = Self::U, I = Self::I, D = Self::D>;
    /// same digit family, 1 and 3 digits (used as bnum-typed shift amounts)
    type Fam1U: UInt;
    type Fam1I: SInt;
    type Fam3U: UInt;
    type Fam3I: SInt;
    const N: usize;
    const DIGIT_BITS: u32;
    const W: u32;
    const SIGNED: bool;
    /// configuration name, e.g. "D8x3"
    fn cfg() -> String;
    /// type name, e.g. "U:D8x3" / "I:D8x3"
    fn tname() -> String {
        format!("{}:{}", if Self::SIGNED { "I" } else { "U" }, Self::cfg())
    }
    fn shape() -> Shape {
        Shape::new(Self::W, Self::DIGIT_BITS)
    }
    /// the value whose two's-complement pattern is the given W/8 little-endian bytes
    fn load(p: &[u8]) -> Self;
    /// the W/8 little-endian bytes of the two's-complement pattern
    fn store(&self) -> Vec<u8>;
    /// the denoted integer
    fn z(&self) -> Z {
        Z::from_le(&self.store(), Self::SIGNED)
    }
    /// the value of z reduced into the type (z mod 2^W)
    fn of_z(z: &Z) -> Self {
        Self::load(&z.to_le_wrapped((Self::W / 8) as usize))
    }
    // associated constants of the bnum type
    fn k_bits() -> u32;
    fn k_bytes() -> u32;
    fn k_min() -> Self;
    fn k_max() -> Self;
    fn k_zero() -> Self;
    fn k_one() -> Self;
    fn k_small(i: usize) -> Self; // ZERO..TEN

    common_methods!(decl);

    // num_traits entry points (anchored by C18 / C19) used by the `siblings` parts of the topic checks
    fn nt_from_str_radix(s: &str, radix: u32) -> Result<Self, ParseIntError>;
    /// ToPrimitive::to_{u8, u16, u32, u64, u128, usize, i8, i16, i32, i64, i128, isize} as reference integers
    fn nt_to_ints(&self) -> Vec<Option<Z>>;
    /// ToPrimitive::to_f32 / to_f64 as bit patterns
    fn nt_to_floats(&self) -> (Option<u32>, Option<u64>);
    fn nt_from_u64(v: u64) -> Option<Self>;
    fn nt_from_i64(v: i64) -> Option<Self>;
    fn nt_from_u128(v: u128) -> Option<Self>;
    fn nt_from_i128(v: i128) -> Option<Self>;
    fn nt_from_f32(v: f32) -> Option<Self>;
    fn nt_from_f64(v: f64) -> Option<Self>;
}

pub trait UInt: Int + Add<<Self as Int>::D, Output = Self> + Div<<Self as Int>::D, Output = Self> + Rem<<Self as Int>::D, Output = <Self as Int>::D> {
    fn from_digits_arr(p: &[u8]) -> Self;
    fn digits_bytes(&self) -> Vec<u8>;
    fn from_digit_u64(d: u64) -> Self;
    fn set_bit_(&mut self, i: u32, v: bool);
    /// `From<[digit; N]>` applied to the digits decoded from the pattern
    fn via_from_array(p: &[u8]) -> Self;
    /// `<[digit; N]>::from(self)` re-encoded as bytes
    fn via_into_array(self) -> Vec<u8>;
    uint_methods!(decl);
}

pub trait SInt: Int + Neg<Output = Self> {
    fn k_neg_small(i: usize) -> Self; // NEG_ONE..NEG_TEN for i = 1..=10
    // num_traits::Signed entry points (anchored by C18)
    fn nt_signum(&self) -> Self;
    fn nt_abs(&self) -> Self;
    fn nt_is_positive(&self) -> bool;
    fn nt_is_negative(&self) -> bool;
    sint_methods!(decl);
}

macro_rules! impl_family {
    ($BUint:ident, $BInt:ident, $D:ty, $dname:literal) => {
        impl<const N: usize> Int for bnum::$BUint<N> {
            type D = $D;
            type U = bnum::$BUint<N>;
            type I = bnum::$BInt<N>;
            type Fam1U = bnum::$BUint<1>;
            type Fam1I = bnum::$BInt<1>;
            type Fam3U = bnum::$BUint<3>;
            type Fam3I = bnum::$BInt<3>;
            const N: usize = N;
            const DIGIT_BITS: u32 = <$D>::BITS;
            const W: u32 = <$D>::BITS * N as u32;
            const SIGNED: bool = false;
            fn cfg() -> String {
                format!("{}x{}", $dname, N)
            }
            fn load(p: &[u8]) -> Self {
                Self::from_digits(digits_from_bytes::<$D, N>(p))
            }
            fn store(&self) -> Vec<u8> {
                bytes_from_digits::<$D>(&self.digits()[..])
            }
            fn k_bits() -> u32 { Self::BITS }
            fn k_bytes() -> u32 { Self::BYTES }
            fn k_min() -> Self { Self::MIN }
            fn k_max() -> Self { Self::MAX }
            fn k_zero() -> Self { Self::ZERO }
            fn k_one() -> Self { Self::ONE }
            fn k_small(i: usize) -> Self {
                [Self::ZERO, Self::ONE, Self::TWO, Self::THREE, Self::FOUR, Self::FIVE, Self::SIX, Self::SEVEN, Self::EIGHT, Self::NINE, Self::TEN][i]
            }
            common_methods!(imp bnum::$BUint<N>);

            fn nt_from_str_radix(s: &str, radix: u32) -> Result<Self, ParseIntError> { <Self as num_traits::Num>::from_str_radix(s, radix) }
            fn nt_to_ints(&self) -> Vec<Option<Z>> {
                use num_traits::ToPrimitive as TP;
                vec![
                    TP::to_u8(self).map(|v| Z::from_u128(v as u128)), TP::to_u16(self).map(|v| Z::from_u128(v as u128)), TP::to_u32(self).map(|v| Z::from_u128(v as u128)),
                    TP::to_u64(self).map(|v| Z::from_u128(v as u128)), TP::to_u128(self).map(Z::from_u128), TP::to_usize(self).map(|v| Z::from_u128(v as u128)),
                    TP::to_i8(self).map(|v| Z::from_i128(v as i128)), TP::to_i16(self).map(|v| Z::from_i128(v as i128)), TP::to_i32(self).map(|v| Z::from_i128(v as i128)),
                    TP::to_i64(self).map(|v| Z::from_i128(v as i128)), TP::to_i128(self).map(Z::from_i128), TP::to_isize(self).map(|v| Z::from_i128(v as i128)),
                ]
            }
            fn nt_to_floats(&self) -> (Option<u32>, Option<u64>) {
                (num_traits::ToPrimitive::to_f32(self).map(f32::to_bits), num_traits::ToPrimitive::to_f64(self).map(f64::to_bits))
            }
            fn nt_from_u64(v: u64) -> Option<Self> { <Self as num_traits::FromPrimitive>::from_u64(v) }
            fn nt_from_i64(v: i64) -> Option<Self> { <Self as num_traits::FromPrimitive>::from_i64(v) }
            fn nt_from_u128(v: u128) -> Option<Self> { <Self as num_traits::FromPrimitive>::from_u128(v) }
            fn nt_from_i128(v: i128) -> Option<Self> { <Self as num_traits::FromPrimitive>::from_i128(v) }
            fn nt_from_f32(v: f32) -> Option<Self> { <Self as num_traits::FromPrimitive>::from_f32(v) }
            fn nt_from_f64(v: f64) -> Option<Self> { <Self as num_traits::FromPrimitive>::from_f64(v) }
        }
        impl<const N: usize> UInt for bnum::$BUint<N> {
            fn from_digits_arr(p: &[u8]) -> Self {
                Self::from_digits(digits_from_bytes::<$D, N>(p))
            }
            fn digits_bytes(&self) -> Vec<u8> {
                bytes_from_digits::<$D>(&self.digits()[..])
            }
            fn from_digit_u64(d: u64) -> Self {
                Self::from_digit(d as $D)
            }
            fn set_bit_(&mut self, i: u32, v: bool) {
                self.set_bit(i, v)
            }
            fn via_from_array(p: &[u8]) -> Self {
                <Self as From<[$D; N]>>::from(digits_from_bytes::<$D, N>(p))
            }
            fn via_into_array(self) -> Vec<u8> {
                let arr: [$D; N] = self.into();
                bytes_from_digits::<$D>(&arr[..])
            }
            uint_methods!(imp bnum::$BUint<N>);
        }
        impl<const N: usize> Int for bnum::$BInt<N> {
            type D = $D;
            type U = bnum::$BUint<N>;
            type I = bnum::$BInt<N>;
            type Fam1U = bnum::$BUint<1>;
            type Fam1I = bnum::$BInt<1>;
            type Fam3U = bnum::$BUint<3>;
            type Fam3I = bnum::$BInt<3>;
            const N: usize = N;
            const DIGIT_BITS: u32 = <$D>::BITS;
            const W: u32 = <$D>::BITS * N as u32;
            const SIGNED: bool = true;
            fn cfg() -> String {
                format!("{}x{}", $dname, N)
            }
            fn load(p: &[u8]) -> Self {
                Self::from_bits(bnum::$BUint::<N>::from_digits(digits_from_bytes::<$D, N>(p)))
            }
            fn store(&self) -> Vec<u8> {
                bytes_from_digits::<$D>(&self.to_bits().digits()[..])
            }
            fn k_bits() -> u32 { Self::BITS }
            fn k_bytes() -> u32 { Self::BYTES }
            fn k_min() -> Self { Self::MIN }
            fn k_max() -> Self { Self::MAX }
            fn k_zero() -> Self { Self::ZERO }
            fn k_one() -> Self { Self::ONE }
            fn k_small(i: usize) -> Self {
                [Self::ZERO, Self::ONE, Self::TWO, Self::THREE, Self::FOUR, Self::FIVE, Self::SIX, Self::SEVEN, Self::EIGHT, Self::NINE, Self::TEN][i]
            }
            common_methods!(imp bnum::$BInt<N>);

            fn nt_from_str_radix(s: &str, radix: u32) -> Result<Self, ParseIntError> { <Self as num_traits::Num>::from_str_radix(s, radix) }
            fn nt_to_ints(&self) -> Vec<Option<Z>> {
                use num_traits::ToPrimitive as TP;
                vec![
                    TP::to_u8(self).map(|v| Z::from_u128(v as u128)), TP::to_u16(self).map(|v| Z::from_u128(v as u128)), TP::to_u32(self).map(|v| Z::from_u128(v as u128)),
                    TP::to_u64(self).map(|v| Z::from_u128(v as u128)), TP::to_u128(self).map(Z::from_u128), TP::to_usize(self).map(|v| Z::from_u128(v as u128)),
                    TP::to_i8(self).map(|v| Z::from_i128(v as i128)), TP::to_i16(self).map(|v| Z::from_i128(v as i128)), TP::to_i32(self).map(|v| Z::from_i128(v as i128)),
                    TP::to_i64(self).map(|v| Z::from_i128(v as i128)), TP::to_i128(self).map(Z::from_i128), TP::to_isize(self).map(|v| Z::from_i128(v as i128)),
                ]
            }
            fn nt_to_floats(&self) -> (Option<u32>, Option<u64>) {
                (num_traits::ToPrimitive::to_f32(self).map(f32::to_bits), num_traits::ToPrimitive::to_f64(self).map(f64::to_bits))
            }
            fn nt_from_u64(v: u64) -> Option<Self> { <Self as num_traits::FromPrimitive>::from_u64(v) }
            fn nt_from_i64(v: i64) -> Option<Self> { <Self as num_traits::FromPrimitive>::from_i64(v) }
            fn nt_from_u128(v: u128) -> Option<Self> { <Self as num_traits::FromPrimitive>::from_u128(v) }
            fn nt_from_i128(v: i128) -> Option<Self> { <Self as num_traits::FromPrimitive>::from_i128(v) }
            fn nt_from_f32(v: f32) -> Option<Self> { <Self as num_traits::FromPrimitive>::from_f32(v) }
            fn nt_from_f64(v: f64) -> Option<Self> { <Self as num_traits::FromPrimitive>::from_f64(v) }
        }
        impl<const N: usize> SInt for bnum::$BInt<N> {
            fn k_neg_small(i: usize) -> Self {
                [Self::ZERO, Self::NEG_ONE, Self::NEG_TWO, Self::NEG_THREE, Self::NEG_FOUR, Self::NEG_FIVE, Self::NEG_SIX, Self::NEG_SEVEN, Self::NEG_EIGHT, Self::NEG_NINE, Self::NEG_TEN][i]
            }
            sint_methods!(imp bnum::$BInt<N>);
            fn nt_signum(&self) -> Self { num_traits::Signed::signum(self) }
            fn nt_abs(&self) -> Self { num_traits::Signed::abs(self) }
            fn nt_is_positive(&self) -> bool { num_traits::Signed::is_positive(self) }
            fn nt_is_negative(&self) -> bool { num_traits::Signed::is_negative(self) }
        }
    };
}

impl_family!(BUintD8, BIntD8, u8, "D8");
impl_family!(BUintD16, BIntD16, u16, "D16");
impl_family!(BUintD32, BIntD32, u32, "D32");
impl_family!(BUint, BInt, u64, "D64");

// ---------------------------------------------------------------------------------------------
// configuration table (DESIGN.md §3.2 + §8.2): 43 (digit, N) configurations, unsigned + signed each
// (the 36 planned ones plus BUintD8<260>: more than 255 digits, i.e. digit indices that do not fit a u8)
// ---------------------------------------------------------------------------------------------

/// calls `$m!(UType, IType)` for every configuration; largest widths first so that the thread
/// pool starts the expensive jobs early
#[macro_export]
macro_rules! for_all_cfgs {
    ($m:ident $(, $x:tt)*) => {
        $m!(bnum::BUint<128>, bnum::BInt<128> $(, $x)*);
        $m!(bnum::BUintD32<260>, bnum::BIntD32<260> $(, $x)*);
        $m!(bnum::BUintD16<260>, bnum::BIntD16<260> $(, $x)*);
        $m!(bnum::BUintD8<260>, bnum::BIntD8<260> $(, $x)*);
        $m!(bnum::BUintD8<256>, bnum::BIntD8<256> $(, $x)*);
        $m!(bnum::BUint<17>, bnum::BInt<17> $(, $x)*);
        $m!(bnum::BUint<16>, bnum::BInt<16> $(, $x)*);
        $m!(bnum::BUint<8>, bnum::BInt<8> $(, $x)*);
        $m!(bnum::BUintD32<16>, bnum::BIntD32<16> $(, $x)*);
        $m!(bnum::BUint<7>, bnum::BInt<7> $(, $x)*);
        $m!(bnum::BUint<5>, bnum::BInt<5> $(, $x)*);
        $m!(bnum::BUintD32<7>, bnum::BIntD32<7> $(, $x)*);
        $m!(bnum::BUintD32<10>, bnum::BIntD32<10> $(, $x)*);
        $m!(bnum::BUintD16<20>, bnum::BIntD16<20> $(, $x)*);
        $m!(bnum::BUintD8<40>, bnum::BIntD8<40> $(, $x)*);
        $m!(bnum::BUint<4>, bnum::BInt<4> $(, $x)*);
        $m!(bnum::BUint<3>, bnum::BInt<3> $(, $x)*);
        $m!(bnum::BUintD32<6>, bnum::BIntD32<6> $(, $x)*);
        $m!(bnum::BUintD16<12>, bnum::BIntD16<12> $(, $x)*);
        $m!(bnum::BUintD8<24>, bnum::BIntD8<24> $(, $x)*);
        $m!(bnum::BUintD8<17>, bnum::BIntD8<17> $(, $x)*);
        // digit counts with a leftover after 2-, 4- and 8-digit chunks and at least one full chunk
        $m!(bnum::BUint<6>, bnum::BInt<6> $(, $x)*);
        $m!(bnum::BUintD32<5>, bnum::BIntD32<5> $(, $x)*);
        $m!(bnum::BUintD16<7>, bnum::BIntD16<7> $(, $x)*);
        $m!(bnum::BUintD16<5>, bnum::BIntD16<5> $(, $x)*);
        $m!(bnum::BUintD8<15>, bnum::BIntD8<15> $(, $x)*);
        $m!(bnum::BUintD8<13>, bnum::BIntD8<13> $(, $x)*);
        $m!(bnum::BUintD8<11>, bnum::BIntD8<11> $(, $x)*);
        $m!(bnum::BUintD8<7>, bnum::BIntD8<7> $(, $x)*);
        $m!(bnum::BUint<2>, bnum::BInt<2> $(, $x)*);
        $m!(bnum::BUintD32<4>, bnum::BIntD32<4> $(, $x)*);
        $m!(bnum::BUintD16<8>, bnum::BIntD16<8> $(, $x)*);
        $m!(bnum::BUintD8<16>, bnum::BIntD8<16> $(, $x)*);
        $m!(bnum::BUintD32<3>, bnum::BIntD32<3> $(, $x)*);
        $m!(bnum::BUintD16<6>, bnum::BIntD16<6> $(, $x)*);
        $m!(bnum::BUintD8<12>, bnum::BIntD8<12> $(, $x)*);
        $m!(bnum::BUint<1>, bnum::BInt<1> $(, $x)*);
        $m!(bnum::BUintD32<2>, bnum::BIntD32<2> $(, $x)*);
        $m!(bnum::BUintD16<4>, bnum::BIntD16<4> $(, $x)*);
        $m!(bnum::BUintD8<8>, bnum::BIntD8<8> $(, $x)*);
        $m!(bnum::BUintD16<3>, bnum::BIntD16<3> $(, $x)*);
        $m!(bnum::BUintD8<6>, bnum::BIntD8<6> $(, $x)*);
        $m!(bnum::BUintD8<5>, bnum::BIntD8<5> $(, $x)*);
        $m!(bnum::BUintD32<1>, bnum::BIntD32<1> $(, $x)*);
        $m!(bnum::BUintD16<2>, bnum::BIntD16<2> $(, $x)*);
        $m!(bnum::BUintD8<4>, bnum::BIntD8<4> $(, $x)*);
        $m!(bnum::BUintD8<3>, bnum::BIntD8<3> $(, $x)*);
        $m!(bnum::BUintD16<1>, bnum::BIntD16<1> $(, $x)*);
        $m!(bnum::BUintD8<2>, bnum::BIntD8<2> $(, $x)*);
        $m!(bnum::BUintD8<1>, bnum::BIntD8<1> $(, $x)*);
    };
}

/// budget weight by width: expensive (super-linear) operations run fewer cases on the big types
pub fn width_scale(bits: u32) -> f64 {
    match bits {
        0..=320 => 1.0,
        321..=512 => 0.6,
        513..=1088 => 0.3,
        _ => 0.15,
    }
}

// ---------------------------------------------------------------------------------------------
// `Val`: anything with a W-bit two's-complement pattern (bnum integers and primitive integers)
// ---------------------------------------------------------------------------------------------

pub trait Val: Copy + Debug + Send + Sync + 'static {
    const VW: u32;
    const VSIGNED: bool;
    const VDIGIT_BITS: u32;
    fn vname() -> String;
    fn vload(p: &[u8]) -> Self;
    fn vstore(&self) -> Vec<u8>;
    fn vshape() -> Shape {
        Shape::new(Self::VW, Self::VDIGIT_BITS)
    }
    fn vz(&self) -> Z {
        Z::from_le(&self.vstore(), Self::VSIGNED)
    }
    fn v_of_z(z: &Z) -> Self {
        Self::vload(&z.to_le_wrapped((Self::VW / 8) as usize))
    }
}

impl<T: Int> Val for T {
    const VW: u32 = T::W;
    const VSIGNED: bool = T::SIGNED;
    const VDIGIT_BITS: u32 = T::DIGIT_BITS;
    fn vname() -> String {
        T::tname()
    }
    fn vload(p: &[u8]) -> Self {
        T::load(p)
    }
    fn vstore(&self) -> Vec<u8> {
        self.store()
    }
}

macro_rules! prim_val {
    ($($t:ty, $signed:expr);*) => {$(
        impl Val for $t {
            const VW: u32 = <$t>::BITS;
            const VSIGNED: bool = $signed;
            const VDIGIT_BITS: u32 = if <$t>::BITS > 64 { 64 } else { <$t>::BITS };
            fn vname() -> String { stringify!($t).to_string() }
            fn vload(p: &[u8]) -> Self { <$t>::from_le_bytes(p.try_into().expect("primitive pattern length")) }
            fn vstore(&self) -> Vec<u8> { self.to_le_bytes().to_vec() }
        }
    )*};
}
prim_val!(u8, false; u16, false; u32, false; u64, false; u128, false; usize, false;
          i8, true; i16, true; i32, true; i64, true; i128, true; isize, true);

/// the 16-width sub-table used by the pairwise properties (C09, C13, parts of C16): all four
/// digit types, digit-size ratios 2/4/8 in both directions, widths that are / are not multiples of
/// the other side's digit
#[macro_export]
macro_rules! sub_table_types {
    ($m:ident $(, $x:tt)*) => {
        $m! { [$($x)*]
            bnum::BUintD8<1>, bnum::BIntD8<1>, bnum::BUintD8<3>, bnum::BIntD8<3>, bnum::BUintD8<5>, bnum::BIntD8<5>,
            bnum::BUintD8<8>, bnum::BIntD8<8>, bnum::BUintD8<17>, bnum::BIntD8<17>,
            bnum::BUintD16<1>, bnum::BIntD16<1>, bnum::BUintD16<3>, bnum::BIntD16<3>, bnum::BUintD16<4>, bnum::BIntD16<4>,
            bnum::BUintD16<9>, bnum::BIntD16<9>,
            bnum::BUintD32<1>, bnum::BIntD32<1>, bnum::BUintD32<2>, bnum::BIntD32<2>, bnum::BUintD32<3>, bnum::BIntD32<3>,
            bnum::BUintD32<5>, bnum::BIntD32<5>,
            bnum::BUint<1>, bnum::BInt<1>, bnum::BUint<2>, bnum::BInt<2>, bnum::BUint<3>, bnum::BInt<3>
        }
    };
}
#[macro_export]
macro_rules! prim_types {
    ($m:ident $(, $x:tt)*) => {
        $m! { [$($x)*] u8, u16, u32, u64, u128, usize, i8, i16, i32, i64, i128, isize }
    };
}

/// value-form shifts by every primitive integer type
pub trait ShiftPrims:
    Int
    + Shl<u8, Output = Self> + Shl<u16, Output = Self> + Shl<u64, Output = Self> + Shl<u128, Output = Self> + Shl<usize, Output = Self>
    + Shl<i8, Output = Self> + Shl<i16, Output = Self> + Shl<i32, Output = Self> + Shl<i64, Output = Self> + Shl<i128, Output = Self> + Shl<isize, Output = Self>
    + Shr<u8, Output = Self> + Shr<u16, Output = Self> + Shr<u64, Output = Self> + Shr<u128, Output = Self> + Shr<usize, Output = Self>
    + Shr<i8, Output = Self> + Shr<i16, Output = Self> + Shr<i32, Output = Self> + Shr<i64, Output = Self> + Shr<i128, Output = Self> + Shr<isize, Output = Self>
{
}
impl<T> ShiftPrims for T where
    T: Int
        + Shl<u8, Output = T> + Shl<u16, Output = T> + Shl<u64, Output = T> + Shl<u128, Output = T> + Shl<usize, Output = T>
        + Shl<i8, Output = T> + Shl<i16, Output = T> + Shl<i32, Output = T> + Shl<i64, Output = T> + Shl<i128, Output = T> + Shl<isize, Output = T>
        + Shr<u8, Output = T> + Shr<u16, Output = T> + Shr<u64, Output = T> + Shr<u128, Output = T> + Shr<usize, Output = T>
        + Shr<i8, Output = T> + Shr<i16, Output = T> + Shr<i32, Output = T> + Shr<i64, Output = T> + Shr<i128, Output = T> + Shr<isize, Output = T>
{
}
