//! Forwarders for the *trait forms* of bnum's operators (by-value / by-reference operand
//! combinations, op-assign forms, shifts by every amount type, folds). Reference forms need
//! concrete types, so they are written once per digit family (generic over N) here, which lets the
//! C17 check stay an ordinary generic function. Each forwarder is exactly the expression named in
//! its comment; `form` selects: 0 `a op b`, 1 `&a op b`, 2 `a op &b`, 3 `&a op &b`,
//! 4 `a op= b`, 5 `a op= &b`.

use crate::api::Int;

pub const FORM_NAMES: [&str; 6] = ["a op b", "&a op b", "a op &b", "&a op &b", "a op= b", "a op= &b"];

macro_rules! six_forms {
    ($a:ident, $b:ident, $form:ident, $op:tt, $opa:tt) => {
        match $form {
            0 => $a $op $b,
            1 => &$a $op $b,
            2 => $a $op &$b,
            3 => &$a $op &$b,
            4 => {
                let mut x = $a;
                x $opa $b;
                x
            }
            _ => {
                let mut x = $a;
                x $opa &$b;
                x
            }
        }
    };
}

macro_rules! forms_trait {
    ($( $sh:ident : $t:ty ),*) => {
        pub trait Forms: Int {
            fn f_add(a: Self, b: Self, form: u8) -> Self;
            fn f_sub(a: Self, b: Self, form: u8) -> Self;
            fn f_mul(a: Self, b: Self, form: u8) -> Self;
            fn f_div(a: Self, b: Self, form: u8) -> Self;
            fn f_rem(a: Self, b: Self, form: u8) -> Self;
            fn f_bitand(a: Self, b: Self, form: u8) -> Self;
            fn f_bitor(a: Self, b: Self, form: u8) -> Self;
            fn f_bitxor(a: Self, b: Self, form: u8) -> Self;
            /// form 0: `!a`, 1: `!&a`
            fn f_not(a: Self, form: u8) -> Self;
            /// shifts by a primitive amount: (left?, amount, form) for every primitive type
            $( fn $sh(a: Self, left: bool, s: $t, form: u8) -> Self; )*
            /// shifts by bnum-typed amounts of the same digit family: which = 0 Fam1U, 1 Fam1I, 2 Fam3U, 3 Fam3I, 4 Self::U, 5 Self::I;
            /// the amount is given as u32 and converted with `From<u32>`-free construction (of_z)
            fn f_shift_bnum(a: Self, left: bool, which: u8, amount: u32, form: u8) -> Option<Self>;
            fn f_sum(xs: &[Self], by_ref: bool) -> Self;
            fn f_product(xs: &[Self], by_ref: bool) -> Self;
        }
    };
}
forms_trait!(f_shift_u8: u8, f_shift_u16: u16, f_shift_u32: u32, f_shift_u64: u64, f_shift_u128: u128, f_shift_usize: usize,
             f_shift_i8: i8, f_shift_i16: i16, f_shift_i32: i32, f_shift_i64: i64, f_shift_i128: i128, f_shift_isize: isize);

pub trait NegForms: Int {
    /// form 0: `-a`, 1: `-&a`
    fn f_neg(a: Self, form: u8) -> Self;
}

macro_rules! shift_prim_impl {
    ($( $sh:ident : $t:ty ),*) => {$(
        fn $sh(a: Self, left: bool, s: $t, form: u8) -> Self {
            if left { six_forms!(a, s, form, <<, <<=) } else { six_forms!(a, s, form, >>, >>=) }
        }
    )*};
}

macro_rules! shift_bnum_arm {
    ($A:ty, $a:ident, $left:ident, $amount:ident, $form:ident) => {{
        let z = vlib::Z::from_u64($amount as u64);
        if !z.fits(<$A as Int>::W as u64, <$A as Int>::SIGNED) {
            return None;
        }
        let s: $A = <$A as Int>::of_z(&z);
        Some(if $left { six_forms!($a, s, $form, <<, <<=) } else { six_forms!($a, s, $form, >>, >>=) })
    }};
}

macro_rules! forms_impl {
    ($T:ident, $BUint:ident, $BInt:ident) => {
        impl<const N: usize> Forms for bnum::$T<N> {
            fn f_add(a: Self, b: Self, form: u8) -> Self { six_forms!(a, b, form, +, +=) }
            fn f_sub(a: Self, b: Self, form: u8) -> Self { six_forms!(a, b, form, -, -=) }
            fn f_mul(a: Self, b: Self, form: u8) -> Self { six_forms!(a, b, form, *, *=) }
            fn f_div(a: Self, b: Self, form: u8) -> Self { six_forms!(a, b, form, /, /=) }
            fn f_rem(a: Self, b: Self, form: u8) -> Self { six_forms!(a, b, form, %, %=) }
            fn f_bitand(a: Self, b: Self, form: u8) -> Self { six_forms!(a, b, form, &, &=) }
            fn f_bitor(a: Self, b: Self, form: u8) -> Self { six_forms!(a, b, form, |, |=) }
            fn f_bitxor(a: Self, b: Self, form: u8) -> Self { six_forms!(a, b, form, ^, ^=) }
            fn f_not(a: Self, form: u8) -> Self {
                if form == 0 { !a } else { !&a }
            }
            shift_prim_impl!(f_shift_u8: u8, f_shift_u16: u16, f_shift_u32: u32, f_shift_u64: u64, f_shift_u128: u128, f_shift_usize: usize,
                             f_shift_i8: i8, f_shift_i16: i16, f_shift_i32: i32, f_shift_i64: i64, f_shift_i128: i128, f_shift_isize: isize);
            fn f_shift_bnum(a: Self, left: bool, which: u8, amount: u32, form: u8) -> Option<Self> {
                match which {
                    0 => shift_bnum_arm!(bnum::$BUint<1>, a, left, amount, form),
                    1 => shift_bnum_arm!(bnum::$BInt<1>, a, left, amount, form),
                    2 => shift_bnum_arm!(bnum::$BUint<3>, a, left, amount, form),
                    3 => shift_bnum_arm!(bnum::$BInt<3>, a, left, amount, form),
                    4 => shift_bnum_arm!(bnum::$BUint<N>, a, left, amount, form),
                    _ => shift_bnum_arm!(bnum::$BInt<N>, a, left, amount, form),
                }
            }
            fn f_sum(xs: &[Self], by_ref: bool) -> Self {
                if by_ref { xs.iter().sum() } else { xs.iter().copied().sum() }
            }
            fn f_product(xs: &[Self], by_ref: bool) -> Self {
                if by_ref { xs.iter().product() } else { xs.iter().copied().product() }
            }
        }
    };
}

macro_rules! family {
    ($BUint:ident, $BInt:ident) => {
        forms_impl!($BUint, $BUint, $BInt);
        forms_impl!($BInt, $BUint, $BInt);
        impl<const N: usize> NegForms for bnum::$BInt<N> {
            fn f_neg(a: Self, form: u8) -> Self {
                if form == 0 { -a } else { -&a }
            }
        }
    };
}
family!(BUintD8, BIntD8);
family!(BUintD16, BIntD16);
family!(BUintD32, BIntD32);
family!(BUint, BInt);
