//! C14 — float/integer casts round and saturate exactly like Rust's `as` (DESIGN.md §4 C14)

use bnum::cast::{As, CastFrom};
use checks::api::{Int, SInt, UInt};
use checks::common::*;
use checks::for_all_cfgs;
use proptest::prelude::*;
use vlib::float_model::{self as fm, Fmt, F32, F64};
use vlib::gen::{self, Shape};
use vlib::runner::{self, outcome, Job, Obs, Outcome, Property};
use vlib::{ck, Pat, Z};

const QUICK: u32 = 1500;
const FACTOR: u32 = 20;

// ------------------------------------------------------------------------------------------------
// int -> float
// ------------------------------------------------------------------------------------------------

/// [p-bit mantissa | guard | tail] patterns at every bit length
fn int_values(sh: Shape, signed: bool) -> BoxedStrategy<Pat> {
    let w = sh.bits() as u64;
    let maxbits = if signed { w - 1 } else { w };
    let wrap = move |z: Z| Pat(z.to_le_wrapped(sh.bytes));
    let lengths = prop_oneof![
        6 => 1u64..=maxbits,
        2 => prop_oneof![Just(23u64), Just(24), Just(25), Just(26), Just(52), Just(53), Just(54), Just(55), Just(64), Just(65)],
        3 => prop_oneof![Just(127u64), Just(128), Just(129), Just(1023), Just(1024), Just(1025)],
        2 => (0u64..3).prop_map(move |k| maxbits - k.min(maxbits - 1)),
    ];
    let shaped = (lengths, any::<bool>(), any::<u64>(), 0u8..3, 0u8..8, gen::pattern(sh), any::<bool>()).prop_map(move |(l, f32_target, mant, mant_class, tail_class, noise, neg)| {
        let l = l.min(maxbits).max(1);
        let p = if f32_target { 24u64 } else { 53 };
        if l <= p {
            let z = Z::from_u64(mant).mod_2k(l.saturating_sub(1)).add(&Z::pow2(l - 1));
            return wrap(if neg && signed { z.neg() } else { z });
        }
        // kept mantissa: top bit set, parity chosen by class
        let m = match mant_class {
            0 => (mant & ((1u64 << p) - 1)) | (1u64 << (p - 1)) | 1,          // odd
            1 => ((mant & ((1u64 << p) - 1)) | (1u64 << (p - 1))) & !1,       // even
            _ => (1u64 << p) - 1,                                            // all ones: rounding up carries into the exponent
        };
        let t = l - p; // number of discarded bits
        let tail = match tail_class {
            0 => Z::zero(),                                       // 0...0   exact
            1 => Z::one(),                                        // 0...01  just above
            2 => Z::pow2(t - 1),                                  // 10...0  exact tie
            3 => Z::pow2(t - 1).add_i(1),                         // 10...01 just above the tie
            4 => Z::pow2(t - 1).add_i(-1),                        // 01...1  just below the tie
            5 => Z::pow2(t).add_i(-1),                            // 1...1
            6 => Z::pow2(t - 1).add(&Z::pow2(t / 2)).mod_2k(t),  // tie + one far lower bit
            _ => Z::from_le_unsigned(&noise.0).mod_2k(t),
        };
        let z = Z::from_u64(m).shl(t).add(&tail.mod_2k(t));
        wrap(if neg && signed { z.neg() } else { z })
    });
    prop_oneof![8 => shaped, 2 => gen::pattern(sh), 1 => gen::boundary(sh)].boxed()
}

fn eval_int_to_float<T: Int>(c: &Pat, obs: &mut Obs) -> Result<(), String>
where
    f32: CastFrom<T>,
    f64: CastFrom<T>,
{
    let x: T = ld(c);
    let z = x.z();
    for (f, name) in [(F32, "f32"), (F64, "f64")] {
        let exp = fm::int_to_float(&z, f);
        let got = if f.p == 24 { outcome(|| x.as_::<f32>().to_bits() as u64) } else { outcome(|| x.as_::<f64>().to_bits()) };
        let bl = z.bit_len();
        let p = f.p as u64;
        let rounds = bl > p && z.abs().trailing_zeros().map_or(false, |tz| tz < bl - p);
        let tie = bl > p && z.abs().trailing_zeros() == Some(bl - p - 1);
        let inf = (exp >> (f.p - 1)) & ((1 << f.exp_bits) - 1) == (1 << f.exp_bits) - 1;
        obs.nt_if(bl > p);
        obs.label_if(rounds, "inexact (rounding happens)");
        if tie {
            let kept_odd = z.abs().mag_bit(bl - p);
            obs.label(if kept_odd { "exact tie, kept mantissa odd (rounds up)" } else { "exact tie, kept mantissa even (rounds down)" });
        }
        obs.label_if(inf, "overflow to infinity");
        obs.label_if(!inf && bl > p && (exp >> (f.p - 1)) & ((1 << f.exp_bits) - 1) == (bl as u64 + f.bias() as u64), "rounding carried into the exponent");
        obs.label_if(z.is_neg(), "negative value");
        ck!(format!("{} as {} (bits)", T::tname(), name), got.map(|b| format!("{:#x}", b)), Outcome::Returned(format!("{:#x}", exp)));
        // second oracle: `as` on the primitive of equal width
        if let Some(v) = z.to_i128().filter(|_| T::SIGNED && T::W <= 128) {
            let prim = if f.p == 24 { (v as f32).to_bits() as u64 } else { (v as f64).to_bits() };
            assert!(prim == exp, "float model disagrees with `as`: {} -> {:#x} vs {:#x}", v, exp, prim);
        }
        if let Some(v) = z.to_u128().filter(|_| !T::SIGNED && T::W <= 128) {
            let prim = if f.p == 24 { (v as f32).to_bits() as u64 } else { (v as f64).to_bits() };
            assert!(prim == exp, "float model disagrees with `as`: {} -> {:#x} vs {:#x}", v, exp, prim);
        }
    }
    // sibling entry points: num_traits::ToPrimitive::to_f32 / to_f64 (anchored by C19: always Some of the nearest float)
    ck!("ToPrimitive::to_f32 / to_f64", outcome(|| x.nt_to_floats()), Outcome::Returned((Some(fm::int_to_float(&z, F32) as u32), Some(fm::int_to_float(&z, F64)))));
    obs.note(|| format!("x={:?} -> f32 bits {:#x}, f64 bits {:#x}", z, fm::int_to_float(&z, F32), fm::int_to_float(&z, F64)));
    Ok(())
}

// ------------------------------------------------------------------------------------------------
// float -> int
// ------------------------------------------------------------------------------------------------

/// float bit patterns: sign x exponent class x mantissa class, relative to the target width W
fn float_bits(f: Fmt, w: u32) -> BoxedStrategy<u64> {
    let bias = f.bias();
    let emax = (1i64 << f.exp_bits) - 1;
    let p = f.p as i64;
    let w = w as i64;
    let exps = prop_oneof![
        2 => Just(0i64),                                        // subnormal / zero
        1 => Just(1i64),
        4 => (-3i64..=3).prop_map(move |d| bias + d),           // around 1.0: [0.125, 16)
        2 => (-2i64..=2).prop_map(move |d| bias + p - 1 + d),   // around 2^(p-1): fraction disappears
        5 => (-3i64..=2).prop_map(move |d| bias + w + d),       // around 2^W: saturation edge
        2 => (0i64..=w + 2).prop_map(move |d| bias + d),        // anywhere in range
        1 => Just(emax - 1),                                    // largest finite
        2 => Just(emax),                                        // inf / NaN
        2 => (0i64..emax).prop_map(|e| e),
    ];
    let frac_bits = f.p - 1;
    let mants = prop_oneof![
        3 => Just(0u64),
        1 => Just(1u64),
        2 => Just(1u64 << (frac_bits - 1)),
        2 => Just((1u64 << frac_bits) - 1),
        1 => (0u32..frac_bits).prop_map(|k| 1u64 << k),
        1 => (0u32..frac_bits).prop_map(move |k| ((1u64 << frac_bits) - 1) & !((1u64 << k) - 1)),
        4 => any::<u64>().prop_map(move |x| x & ((1u64 << frac_bits) - 1)),
    ];
    let total = f.total_bits();
    let patterns = (any::<bool>(), exps, mants).prop_map(move |(neg, e, m)| {
        let e = e.clamp(0, emax) as u64;
        ((neg as u64) << (total - 1)) | (e << frac_bits) | m
    });
    // n + fraction around small and large integers, computed in float arithmetic
    let is32 = f.p == 24;
    let near_int = (any::<i32>(), 0u8..6, 0u32..40).prop_map(move |(n, fr, sh)| {
        let base = (n >> (sh % 31)) as f64;
        let fr = [0.5, 0.25, 0.75, 0.999, -0.5, 0.0][fr as usize];
        let v = base + fr;
        if is32 { (v as f32).to_bits() as u64 } else { v.to_bits() }
    });
    prop_oneof![8 => patterns, 2 => near_int].boxed()
}

fn eval_float_to_int<T: Int>(c: &(u64, bool), obs: &mut Obs) -> Result<(), String>
where
    T: CastFrom<f32> + CastFrom<f64>,
{
    let (bits, is32) = *c;
    let f = if is32 { F32 } else { F64 };
    let bits = if is32 { bits & 0xffff_ffff } else { bits };
    let exp = fm::float_to_int(bits, f, T::W as u64, T::SIGNED);
    let got = if is32 { outcome(|| st(&f32::from_bits(bits as u32).as_::<T>())) } else { outcome(|| st(&f64::from_bits(bits).as_::<T>())) };
    let d = fm::decode(bits, f);
    let t = fm::trunc(bits, f);
    let frac = fm::has_fraction(bits, f);
    let w = T::W as u64;
    match &d {
        fm::Decoded::Nan => obs.label("NaN"),
        fm::Decoded::Inf { .. } => obs.label("infinity"),
        fm::Decoded::Finite { neg, mant, exp2 } => {
            let mag_bits = if *mant == 0 { i64::MIN } else { 64 - mant.leading_zeros() as i64 + exp2 };
            obs.label_if(*mant == 0 && *neg, "-0.0");
            obs.label_if(frac && mag_bits == 0, "fraction in [0.5, 1)");
            obs.label_if(frac && mag_bits < 0, "fraction in (0, 0.5)");
            obs.label_if(frac && mag_bits >= 1, "|f| >= 1 with a fractional part");
            obs.label_if(*mant != 0 && *exp2 < -(f.bias() + f.p as i64 - 2) + 1 && mag_bits < -(f.bias()) + 2, "subnormal");
        }
    }
    if let Some(t) = &t {
        obs.label_if(!t.fits(w, T::SIGNED) && !t.is_neg(), "saturates at MAX");
        obs.label_if(!t.fits(w, T::SIGNED) && t.is_neg(), if T::SIGNED { "saturates at MIN" } else { "negative -> 0 (unsigned)" });
        obs.label_if(t.abs().bit_len() + 2 >= w, "|f| >= 2^(W-2)");
        obs.nt_if(frac && t.abs().bit_len() >= 0 && matches!(d, fm::Decoded::Finite { mant, exp2, .. } if mant != 0 && 64 - mant.leading_zeros() as i64 + exp2 >= 0));
        obs.nt_if(t.abs().bit_len() + 2 >= w);
        obs.nt_if(matches!(d, fm::Decoded::Finite { mant: 0, neg: true, .. }));
    } else {
        obs.nt();
    }
    ck!(format!("{} {:#x} as {}", if is32 { "f32" } else { "f64" }, bits, T::tname()), got, Outcome::Returned(pz::<T>(&exp)));
    // sibling entry points: num_traits::FromPrimitive::from_f32 / from_f64 (anchored by C19): Some(trunc) when the float is
    // finite, the truncated value is in range and (unsigned targets) the float is not negative; None for NaN, infinities and
    // out-of-range values; a negative float with an unsigned target and trunc = 0 is left open by C19
    {
        let sign_set = bits >> (if is32 { 31 } else { 63 }) & 1 == 1;
        let got = if is32 { outcome(|| T::nt_from_f32(f32::from_bits(bits as u32)).map(|v| st(&v))) } else { outcome(|| T::nt_from_f64(f64::from_bits(bits)).map(|v| st(&v))) };
        match &t {
            None => ck!("FromPrimitive::from_f32/f64 of NaN / infinity", got, Outcome::Returned(None)),
            Some(t) if !t.fits(w, T::SIGNED) => ck!("FromPrimitive::from_f32/f64 out of range", got, Outcome::Returned(None)),
            Some(t) if T::SIGNED || !sign_set => ck!("FromPrimitive::from_f32/f64 in range", got, Outcome::Returned(Some(pz::<T>(t)))),
            Some(_) => {}
        }
    }
    // second oracle at primitive widths
    macro_rules! prim {
        ($($t:ty),*) => {$(
            if T::W == <$t>::BITS && T::SIGNED == (<$t>::MIN != 0) {
                let v = if is32 { f32::from_bits(bits as u32) as $t } else { f64::from_bits(bits) as $t };
                let zv = if T::SIGNED { Z::from_i128(v as i128) } else { Z::from_u128(v as u128) };
                assert!(zv == exp, "float model disagrees with `as`: bits {:#x} -> {:?} vs {:?}", bits, exp, zv);
            }
        )*};
    }
    prim!(u8, u16, u32, u64, u128, i8, i16, i32, i64, i128);
    obs.note(|| format!("{} bits {:#x} ({:?}) -> {:?}", if is32 { "f32" } else { "f64" }, bits, d, exp));
    Ok(())
}

fn jobs_for<U, I>(jobs: &mut Vec<Job>)
where
    U: UInt + Int<I = I> + CastFrom<f32> + CastFrom<f64>,
    I: SInt + Int<U = U> + CastFrom<f32> + CastFrom<f64>,
    f32: CastFrom<U> + CastFrom<I>,
    f64: CastFrom<U> + CastFrom<I>,
{
    let sh: Shape = U::shape();
    jobs.push(Job::new(job_name::<U>("u/int_to_float"), move |ctx| {
        ctx.run("int_to_float", ctx.budget(QUICK, FACTOR), int_values(sh, false), eval_int_to_float::<U>);
    }));
    jobs.push(Job::new(job_name::<U>("i/int_to_float"), move |ctx| {
        ctx.run("int_to_float", ctx.budget(QUICK, FACTOR), int_values(sh, true), eval_int_to_float::<I>);
    }));
    jobs.push(Job::new(job_name::<U>("sweep"), move |ctx| {
        let full = ctx.tier() == vlib::Tier::Thorough;
        ctx.enumerate("int_to_float_u", "2^k - 1, 2^k, 2^k + 1, negations, complements for every k", position_values(sh, full), eval_int_to_float::<U>);
        ctx.enumerate("int_to_float_i", "2^k - 1, 2^k, 2^k + 1, negations, complements for every k", position_values(sh, full), eval_int_to_float::<I>);
        // every power-of-two float 2^e (and its neighbours in the float lattice), both signs, into the type
        let f64s = || (0u64..2047).flat_map(|e| [0u64, 1, (1 << 52) - 1].into_iter().flat_map(move |m| [0u64, 1].into_iter().map(move |s| ((s << 63) | (e << 52) | m, false))));
        let f32s = || (0u64..255).flat_map(|e| [0u64, 1, (1 << 23) - 1].into_iter().flat_map(move |m| [0u64, 1].into_iter().map(move |s| ((s << 31) | (e << 23) | m, true))));
        ctx.enumerate("f64_to_u", "every f64 exponent x 3 mantissas x 2 signs", f64s(), eval_float_to_int::<U>);
        ctx.enumerate("f64_to_i", "every f64 exponent x 3 mantissas x 2 signs", f64s(), eval_float_to_int::<I>);
        ctx.enumerate("f32_to_u", "every f32 exponent x 3 mantissas x 2 signs", f32s(), eval_float_to_int::<U>);
        ctx.enumerate("f32_to_i", "every f32 exponent x 3 mantissas x 2 signs", f32s(), eval_float_to_int::<I>);
    }));
    jobs.push(Job::new(job_name::<U>("u/float_to_int"), move |ctx| {
        ctx.run("f32_to_int", ctx.budget(QUICK, FACTOR), float_bits(F32, U::W).prop_map(|b| (b, true)), eval_float_to_int::<U>);
        ctx.run("f64_to_int", ctx.budget(QUICK, FACTOR), float_bits(F64, U::W).prop_map(|b| (b, false)), eval_float_to_int::<U>);
    }));
    jobs.push(Job::new(job_name::<U>("i/float_to_int"), move |ctx| {
        ctx.run("f32_to_int", ctx.budget(QUICK, FACTOR), float_bits(F32, U::W - 1).prop_map(|b| (b, true)), eval_float_to_int::<I>);
        ctx.run("f64_to_int", ctx.budget(QUICK, FACTOR), float_bits(F64, U::W - 1).prop_map(|b| (b, false)), eval_float_to_int::<I>);
    }));
}

fn exhaustive(jobs: &mut Vec<Job>) {
    type U8 = bnum::BUintD8<1>;
    type I8 = bnum::BIntD8<1>;
    type U16 = bnum::BUintD8<2>;
    type I16 = bnum::BIntD16<1>;
    jobs.push(Job::new("small/exhaustive@D8x1", |ctx| {
        ctx.enumerate("u8_to_float", "all values of BUintD8<1>", (0..=255u8).map(|a| Pat(vec![a])), eval_int_to_float::<U8>);
        ctx.enumerate("i8_to_float", "all values of BIntD8<1>", (0..=255u8).map(|a| Pat(vec![a])), eval_int_to_float::<I8>);
        ctx.enumerate("u16_to_float", "all values of BUintD8<2>", (0..=u16::MAX).map(|a| Pat(a.to_le_bytes().to_vec())), eval_int_to_float::<U16>);
        ctx.enumerate("i16_to_float", "all values of BIntD16<1>", (0..=u16::MAX).map(|a| Pat(a.to_le_bytes().to_vec())), eval_int_to_float::<I16>);
        // every f32 with a biased exponent in [bias-3, bias+9] and the top 8 mantissa bits enumerated, both signs
        let f32s = || {
            (124u64..=136).flat_map(|e| (0u64..256).flat_map(move |m| [0u64, 1].into_iter().flat_map(move |s| [0u64, 1, 0x7fff].into_iter().map(move |low| ((s << 31) | (e << 23) | (m << 15) | low, true)))))
        };
        ctx.enumerate("f32_to_u8", "f32 grid: 13 exponents x 256 top mantissa patterns x 3 low patterns x 2 signs", f32s(), eval_float_to_int::<U8>);
        ctx.enumerate("f32_to_i8", "same f32 grid", f32s(), eval_float_to_int::<I8>);
    }));
}

fn main() {
    let mut jobs = Vec::new();
    macro_rules! add {
        ($U:ty, $I:ty) => {
            jobs_for::<$U, $I>(&mut jobs);
        };
    }
    for_all_cfgs!(add);
    exhaustive(&mut jobs);
    runner::main(
        Property {
            id: "C14",
            rule: "int -> float: [p-bit kept mantissa | discarded tail] values at every bit length L (uniform 1..W plus 23..26, 52..55, 64/65, 127..129, 1023..1025, W-2..W) with kept mantissa odd / even / all ones and tail in {0..0, 0..01, 10..0 (exact tie), 10..01, 01..1, 1..1, tie + far low bit, random}, for both f32 and f64 targets, negatives for signed types; plus structured patterns and boundary values. float -> int: bit patterns sign x exponent class {0 (subnormal/zero), 1, bias-3..bias+3, bias+p-1 +-2, bias+W-3..bias+W+2, uniform in range, largest finite, all-ones (inf/NaN), uniform} x mantissa class {0, 1, MSB, all ones, single bit, high run, uniform}, plus n + {0.5, 0.25, 0.75, 0.999, -0.5} around integers. Oracle: float model (exact decode, exact truncation, clamp to [MIN, MAX], NaN -> 0; round-to-nearest-even from the reference integer with infinity beyond the largest finite), compared bit-for-bit via to_bits(); the model is validated against `as` on primitives at start-up and in-line at 8..128 bits. NON-TRIVIAL: int -> float with bit length > p (rounding can happen); float -> int with |f| >= 1 and a fractional part, or |f| >= 2^(W-2), or non-finite, or -0.0. distinct = distinct (profile, job, inputs) by 64-bit hash. Exhaustive: all 8- and 16-bit integers to f32/f64; an f32 grid around 1.0 into the 8-bit types. A deterministic SWEEP additionally enumerates, per configuration, position-specific inputs (2^k - 1, 2^k, 2^k + 1 with their negations and complements; carry / borrow chains and power-of-two products ending at every bit position k; every shift / rotate amount; every bit index; every float exponent) - all positions on types up to 1088 bits, a sparse selection of a few hundred positions on wider types in the quick tier, all positions in the thorough tier. Sibling entry points (anchored by C19) on the same cases: ToPrimitive::to_f32/to_f64 = Some(nearest float); FromPrimitive::from_f32/from_f64 = Some(trunc) for finite in-range floats (non-negative for unsigned targets), None for NaN, infinities and out-of-range values.",
            assumptions: &[
                "digits()/from_digits()/to_bits()/from_bits() and f32/f64::to_bits/from_bits are the trusted observation channel",
                "float model validated against `as` on u8..u128 / i8..i128 on every run",
            ],
        },
        jobs,
        &[("refint", vlib::refint::self_test), ("float_model", vlib::float_model::self_test)],
    );
}
