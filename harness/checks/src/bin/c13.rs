//! C13 — checked conversions succeed exactly when the value is representable (DESIGN.md §4 C13)

use bnum::BTryFrom;
use checks::api::{Int, SInt, UInt, Val};
use checks::common::cast_sources;
use checks::sub_table_types;
use proptest::prelude::*;
use vlib::gen::{self, Digit, Shape};
use vlib::runner::{self, outcome, Job, Obs, Outcome, Property};
use vlib::{ck, Pat, Z};

const QUICK: u32 = 250;
const FACTOR: u32 = 20;

fn classify<A: Val, B: Val>(obs: &mut Obs, z: &Z) {
    let lo = Z::min_of(B::VW as u64, B::VSIGNED);
    let hi = Z::max_of(B::VW as u64, B::VSIGNED);
    let two = Z::from_i64(2);
    let near = z.sub(&lo).abs() <= two || z.sub(&hi).abs() <= two;
    obs.nt_if(near || A::VW > B::VW);
    obs.label_if(near, "within 2 of a target bound");
    obs.label_if(A::VW > B::VW, "source wider than target");
    obs.label_if(!z.fits(B::VW as u64, B::VSIGNED), "not representable -> Err");
    obs.label_if(A::VSIGNED != B::VSIGNED, "signedness differs");
    obs.label_if(A::VDIGIT_BITS != B::VDIGIT_BITS, "digit sizes differ");
}

fn expected<B: Val>(z: &Z) -> Option<Pat> {
    if z.fits(B::VW as u64, B::VSIGNED) {
        Some(Pat(z.to_le_wrapped((B::VW / 8) as usize)))
    } else {
        None
    }
}

/// TryFrom<bnum> for primitive
fn to_prim<A: Int, P: Val + TryFrom<A>>(c: &Pat, obs: &mut Obs) -> Result<(), String> {
    let a = A::load(&c.0);
    let z = a.z();
    classify::<A, P>(obs, &z);
    let got = outcome(|| P::try_from(a).ok().map(|v| Pat(v.vstore())));
    ck!(format!("TryFrom<{}> for {}", A::tname(), P::vname()), got, Outcome::Returned(expected::<P>(&z)));
    obs.note(|| format!("{} {:?} -> {} {:?}", A::tname(), z, P::vname(), expected::<P>(&z)));
    Ok(())
}

/// BTryFrom between bnum integers
fn btry<A: Int, B: Int + BTryFrom<A>>(c: &Pat, obs: &mut Obs) -> Result<(), String> {
    let a = A::load(&c.0);
    let z = a.z();
    classify::<A, B>(obs, &z);
    let got = outcome(|| <B as BTryFrom<A>>::try_from(a).ok().map(|v| Pat(v.store())));
    ck!(format!("BTryFrom<{}> for {}", A::tname(), B::tname()), got, Outcome::Returned(expected::<B>(&z)));
    obs.note(|| format!("{} {:?} -> {} {:?}", A::tname(), z, B::tname(), expected::<B>(&z)));
    Ok(())
}

/// infallible From<primitive> (target at least as wide as the source): value preserved whenever
/// it is representable in the target
fn from_prim<P: Val, B: Int + From<P>>(c: &Pat, obs: &mut Obs) -> Result<(), String> {
    let p = P::vload(&c.0);
    let z = p.vz();
    classify::<P, B>(obs, &z);
    obs.nt_if(z.is_neg());
    let got = outcome(|| Pat(B::from(p).store()));
    match expected::<B>(&z) {
        Some(e) => ck!(format!("From<{}> for {}", P::vname(), B::tname()), got, Outcome::Returned(e)),
        // unsigned source above the MAX of a signed target of the same width: there is no Err
        // channel; the property only speaks about representable values. It must still not panic.
        None => ck!(format!("From<{}> for {} must not panic", P::vname(), B::tname()), got.is_panic(), false),
    }
    Ok(())
}

/// TryFrom<primitive> (explicit impls for negative-capable sources into unsigned targets, and
/// std's blanket impl over From otherwise)
fn tryfrom_prim<P: Val, B: Int + TryFrom<P>>(c: &Pat, obs: &mut Obs) -> Result<(), String> {
    let p = P::vload(&c.0);
    let z = p.vz();
    classify::<P, B>(obs, &z);
    obs.nt_if(z.is_neg());
    let got = outcome(|| B::try_from(p).ok().map(|v| Pat(v.store())));
    if P::VSIGNED == B::SIGNED || P::VSIGNED {
        // same signedness (blanket over From, always representable when the target is at least as
        // wide) or signed source into unsigned target (explicit TryFrom: Err exactly for negatives)
        ck!(format!("TryFrom<{}> for {}", P::vname(), B::tname()), got, Outcome::Returned(expected::<B>(&z)));
    } else {
        // unsigned source into a signed target: blanket over the infallible From; only
        // representable inputs are asserted (see from_prim)
        if let Some(e) = expected::<B>(&z) {
            ck!(format!("TryFrom<{}> for {}", P::vname(), B::tname()), got, Outcome::Returned(Some(e)));
        } else {
            ck!("must not panic", got.is_panic(), false);
        }
    }
    Ok(())
}

fn job<A: Val, B: Val>(jobs: &mut Vec<Job>, group: &str, f: fn(&Pat, &mut Obs) -> Result<(), String>) {
    let (sa, sb) = (A::vshape(), B::vshape());
    jobs.push(Job::new(format!("{}/{}->{}", group, A::vname(), B::vname()), move |ctx| {
        ctx.run("conv", ctx.budget(QUICK, FACTOR), cast_sources(sa, sb), f);
    }));
}

fn prim_jobs<B>(jobs: &mut Vec<Job>)
where
    B: Int + From<bool>,
    B: TryFrom<u8> + TryFrom<u16> + TryFrom<u32> + TryFrom<u64> + TryFrom<u128> + TryFrom<usize>,
    B: TryFrom<i8> + TryFrom<i16> + TryFrom<i32> + TryFrom<i64> + TryFrom<i128> + TryFrom<isize>,
    u8: TryFrom<B>, u16: TryFrom<B>, u32: TryFrom<B>, u64: TryFrom<B>, u128: TryFrom<B>, usize: TryFrom<B>,
    i8: TryFrom<B>, i16: TryFrom<B>, i32: TryFrom<B>, i64: TryFrom<B>, i128: TryFrom<B>, isize: TryFrom<B>,
{
    macro_rules! each {
        ($($p:ty),*) => {$(
            job::<B, $p>(jobs, "bnum_to_prim", to_prim::<B, $p>);
            if B::W >= <$p as Val>::VW {
                job::<$p, B>(jobs, "tryfrom_prim", tryfrom_prim::<$p, B>);
            }
        )*};
    }
    each!(u8, u16, u32, u64, u128, usize, i8, i16, i32, i64, i128, isize);
    jobs.push(Job::new(format!("from_bool/->{}", B::tname()), |ctx| {
        ctx.enumerate("bool", "both bool values", [false, true].into_iter(), |b: &bool, obs: &mut Obs| {
            obs.nt();
            ck!("From<bool>", outcome(|| Pat(B::from(*b).store())), Outcome::Returned(Pat(Z::from_u64(*b as u64).to_le_wrapped((B::W / 8) as usize))));
            Ok(())
        });
    }));
}

/// From<unsigned primitive> / From<char> for unsigned targets and From<any primitive> for signed targets
fn from_jobs_u<B>(jobs: &mut Vec<Job>)
where
    B: UInt + From<u8> + From<u16> + From<u32> + From<u64> + From<u128> + From<usize> + From<char>,
{
    macro_rules! each {
        ($($p:ty),*) => {$(
            if B::W >= <$p as Val>::VW {
                job::<$p, B>(jobs, "from_prim", from_prim::<$p, B>);
            }
        )*};
    }
    each!(u8, u16, u32, u64, u128, usize);
    if B::W >= 32 {
        jobs.push(Job::new(format!("from_char/->{}", B::tname()), |ctx| {
            ctx.run("char", ctx.budget(QUICK, FACTOR), any::<char>().prop_map(|c| c as u32), |c: &u32, obs: &mut Obs| {
                let ch = char::from_u32(*c).ok_or("invalid char")?;
                obs.nt_if(*c > 0xffff);
                ck!("From<char>", outcome(|| Pat(B::from(ch).store())), Outcome::Returned(Pat(Z::from_u64(*c as u64).to_le_wrapped((B::W / 8) as usize))));
                Ok(())
            });
        }));
    }
}
fn from_jobs_i<B>(jobs: &mut Vec<Job>)
where
    B: SInt + From<u8> + From<u16> + From<u32> + From<u64> + From<u128> + From<usize>,
    B: From<i8> + From<i16> + From<i32> + From<i64> + From<i128> + From<isize>,
{
    macro_rules! each {
        ($($p:ty),*) => {$(
            if B::W >= <$p as Val>::VW {
                job::<$p, B>(jobs, "from_prim", from_prim::<$p, B>);
            }
        )*};
    }
    each!(u8, u16, u32, u64, u128, usize, i8, i16, i32, i64, i128, isize);
}

/// from_digits / digits() / From<[digit; N]> / Into<[digit; N]> / from_digit
fn digits_api<U: UInt>(jobs: &mut Vec<Job>) {
    let sh = U::shape();
    jobs.push(Job::new(format!("digits_api@{}", U::cfg()), move |ctx| {
        ctx.run("digits", ctx.budget(QUICK * 2, FACTOR), (gen::pattern(sh), gen::digit_value(sh.digit_bytes)), |c: &(Pat, u64), obs: &mut Obs| {
            let p = &c.0;
            obs.nt_if(p.0.iter().any(|&b| b != 0));
            ck!("from_digits then digits() is the identity on the little-endian digit array", Pat(U::from_digits_arr(&p.0).digits_bytes()), p.clone());
            ck!("From<[digit; N]> stores the array unchanged", Pat(U::via_from_array(&p.0).digits_bytes()), p.clone());
            ck!("Into<[digit; N]> returns the array unchanged", Pat(U::from_digits_arr(&p.0).via_into_array()), p.clone());
            // little-endian: the value is sum digit_i * 2^(i * digit_bits)
            let db = U::DIGIT_BITS as u64;
            let mut z = Z::zero();
            for (i, d) in p.0.chunks(sh.digit_bytes).enumerate() {
                z = z.add(&Z::from_le_unsigned(d).shl(db * i as u64));
            }
            ck!("digits are little-endian (value)", U::from_digits_arr(&p.0).z(), z);
            let d = c.1;
            let x = U::from_digit_u64(d);
            let dd = <U::D as Digit>::from_u64(d).to_u64();
            ck!("from_digit places its argument in the least significant digit", x.z(), Z::from_u64(dd));
            Ok(())
        });
    }));
}

/// sibling entry points of the checked conversions: num_traits::ToPrimitive / FromPrimitive (anchored by C19)
fn nt_conv<T: Int>(c: &(Pat, Pat), obs: &mut Obs) -> Result<(), String> {
    let a = T::load(&c.0 .0);
    let z = a.z();
    obs.nt();
    let bounds: [(u64, bool); 12] = [(8, false), (16, false), (32, false), (64, false), (128, false), (usize::BITS as u64, false), (8, true), (16, true), (32, true), (64, true), (128, true), (isize::BITS as u64, true)];
    let expect: Vec<Option<Z>> = bounds.iter().map(|&(b, s)| if z.fits(b, s) { Some(z.clone()) } else { None }).collect();
    ck!("ToPrimitive::to_{u8..u128, usize, i8..i128, isize}", outcome(|| a.nt_to_ints()), Outcome::Returned(expect));
    let src = &c.1 .0;
    let v128 = u128::from_le_bytes(src[..16].try_into().unwrap());
    let w = T::W as u64;
    let some = |z: Z| if z.fits(w, T::SIGNED) { Some(Pat(z.to_le_wrapped((T::W / 8) as usize))) } else { None };
    ck!("FromPrimitive::from_u128", outcome(|| T::nt_from_u128(v128).map(|v| Pat(v.store()))), Outcome::Returned(some(Z::from_u128(v128))));
    ck!("FromPrimitive::from_i128", outcome(|| T::nt_from_i128(v128 as i128).map(|v| Pat(v.store()))), Outcome::Returned(some(Z::from_i128(v128 as i128))));
    ck!("FromPrimitive::from_u64", outcome(|| T::nt_from_u64(v128 as u64).map(|v| Pat(v.store()))), Outcome::Returned(some(Z::from_u128(v128 as u64 as u128))));
    ck!("FromPrimitive::from_i64", outcome(|| T::nt_from_i64(v128 as i64).map(|v| Pat(v.store()))), Outcome::Returned(some(Z::from_i128(v128 as i64 as i128))));
    Ok(())
}

fn nt_conv_cases(sh: Shape) -> BoxedStrategy<(Pat, Pat)> {
    // value: structured, or a small-magnitude value near a primitive bound; source: 16 bytes with sign / width structure
    let near = (prop_oneof![Just(7u64), Just(8), Just(15), Just(16), Just(31), Just(32), Just(63), Just(64), Just(127), Just(128)], -2i64..=2, any::<bool>()).prop_map(move |(k, e, neg)| {
        let z = Z::pow2(k).add_i(e);
        Pat((if neg { z.neg() } else { z }).to_le_wrapped(sh.bytes))
    });
    let src = prop_oneof![
        3 => proptest::collection::vec(any::<u8>(), 16),
        2 => (0usize..=16, any::<u8>(), any::<bool>()).prop_map(|(k, b, ones)| (0..16).map(|i| if i + 1 == k { b } else if i < k { 0xff } else if ones { 0xff } else { 0 }).collect::<Vec<u8>>()),
    ]
    .prop_map(Pat);
    (prop_oneof![3 => gen::pattern(sh), 3 => near, 1 => gen::boundary(sh)], src).boxed()
}

fn main() {
    let mut jobs: Vec<Job> = Vec::new();
    macro_rules! sib {
        ($U:ty, $I:ty) => {
            jobs.push(Job::new(checks::common::job_name::<$U>("siblings"), move |ctx| {
                let sh = <$U as Int>::shape();
                ctx.run("numtraits_u", ctx.budget(200, FACTOR), nt_conv_cases(sh), nt_conv::<$U>);
                ctx.run("numtraits_i", ctx.budget(200, FACTOR), nt_conv_cases(sh), nt_conv::<$I>);
            }));
        };
    }
    checks::for_all_cfgs!(sib);

    // BTryFrom for every ordered pair of the 32 sub-table types
    macro_rules! bb {
        ([] $($t:ty),*) => { bb!(@go [$($t),*] $($t),*); };
        (@go $all:tt $($a:ty),*) => { $( bb!(@row $a; $all); )* };
        (@row $a:ty; [$($b:ty),*]) => { $( job::<$a, $b>(&mut jobs, "btryfrom", btry::<$a, $b>); )* };
    }
    sub_table_types!(bb);
    // and a few pairs with the large configurations
    job::<bnum::BInt<128>, bnum::BUintD8<17>>(&mut jobs, "btryfrom", btry::<bnum::BInt<128>, bnum::BUintD8<17>>);
    job::<bnum::BUint<128>, bnum::BInt<128>>(&mut jobs, "btryfrom", btry::<bnum::BUint<128>, bnum::BInt<128>>);
    job::<bnum::BIntD8<40>, bnum::BIntD32<10>>(&mut jobs, "btryfrom", btry::<bnum::BIntD8<40>, bnum::BIntD32<10>>);
    job::<bnum::BIntD32<10>, bnum::BIntD16<20>>(&mut jobs, "btryfrom", btry::<bnum::BIntD32<10>, bnum::BIntD16<20>>);
    job::<bnum::BUintD16<20>, bnum::BInt<5>>(&mut jobs, "btryfrom", btry::<bnum::BUintD16<20>, bnum::BInt<5>>);
    job::<bnum::BUint<17>, bnum::BUintD32<16>>(&mut jobs, "btryfrom", btry::<bnum::BUint<17>, bnum::BUintD32<16>>);
    job::<bnum::BIntD32<16>, bnum::BInt<8>>(&mut jobs, "btryfrom", btry::<bnum::BIntD32<16>, bnum::BInt<8>>);
    job::<bnum::BInt<8>, bnum::BUint<128>>(&mut jobs, "btryfrom", btry::<bnum::BInt<8>, bnum::BUint<128>>);

    // sources and targets with more than 256 digits (a digit count or a count of all-ones / all-zero digits narrowed to u8)
    macro_rules! wide_pairs {
        ($(($a:ty, $b:ty)),* $(,)?) => {$(
            job::<$a, $b>(&mut jobs, "btryfrom", btry::<$a, $b>);
            job::<$b, $a>(&mut jobs, "btryfrom", btry::<$b, $a>);
        )*};
    }
    wide_pairs! {
        (bnum::BIntD8<260>, bnum::BIntD8<16>),
        (bnum::BIntD8<260>, bnum::BInt<2>),
        (bnum::BIntD8<260>, bnum::BUintD16<3>),
        (bnum::BUintD8<260>, bnum::BIntD32<4>),
        (bnum::BIntD8<256>, bnum::BIntD8<3>),
        (bnum::BIntD16<260>, bnum::BIntD32<4>),
        (bnum::BIntD16<260>, bnum::BIntD8<260>),
        (bnum::BIntD32<260>, bnum::BInt<1>),
        (bnum::BUintD32<260>, bnum::BIntD16<260>),
        (bnum::BIntD8<260>, bnum::BIntD8<256>),
    }

    macro_rules! pp {
        ([] $($t:ty),*) => { $( prim_jobs::<$t>(&mut jobs); )* };
    }
    sub_table_types!(pp);
    prim_jobs::<bnum::BUint<128>>(&mut jobs);
    prim_jobs::<bnum::BInt<128>>(&mut jobs);
    prim_jobs::<bnum::BUintD8<40>>(&mut jobs);
    prim_jobs::<bnum::BIntD16<20>>(&mut jobs);
    prim_jobs::<bnum::BIntD8<260>>(&mut jobs);
    prim_jobs::<bnum::BUintD16<260>>(&mut jobs);

    macro_rules! ff {
        ($U:ty, $I:ty) => {
            from_jobs_u::<$U>(&mut jobs);
            from_jobs_i::<$I>(&mut jobs);
            digits_api::<$U>(&mut jobs);
        };
    }
    checks::for_all_cfgs!(ff);

    let _ = (std::marker::PhantomData::<dyn Fn() -> ()>, 0);
    runner::main(
        Property {
            id: "C13",
            rule: "(source type, target type) pairs: TryFrom<bnum> for each of the 12 primitives from all 32 sub-table types, four 320..8192-bit types and two types with 260 digits; BTryFrom for all 1024 ordered pairs of the sub-table types (all digit types, U->U, I->U, U->I, I->I) plus 8 pairs with 320..8192-bit types and 20 ordered pairs whose source or target has more than 256 digits (D8x256, D8x260, D16x260, D32x260); From/TryFrom from every primitive, bool and char into every one of the 102 types that is at least as wide as the source; from_digits/digits()/From<[digit;N]>/Into<[digit;N]>/from_digit on all 51 configurations. Source values: structured source patterns; target-shaped values shifted by k*2^Wt (low part fits but padding digits are not pure zero/sign fill); target MAX, MAX+1, MIN, MIN-1, 0, -1 embedded in the source. Oracle: the reference value fits the target <=> Ok, and the Ok value is equal; never panics. For the infallible From<unsigned> into a signed target of the same width only representable inputs are asserted (no Err channel exists), as the property states. NON-TRIVIAL: value within 2 of a target bound, or source wider than target, or negative source. distinct = distinct (profile, job, inputs) by 64-bit hash. SIBLINGS job (per configuration): num_traits::ToPrimitive::to_* (all twelve integer targets) and FromPrimitive::from_{u64, i64, u128, i128} return Some exactly for representable values (the entry points C19 anchors).",
            assumptions: &[
                "digits()/from_digits()/to_bits()/from_bits() are the trusted observation channel (their trivial contract is itself checked in the digits_api jobs)",
                "From from a primitive wider than the target is outside the property (README known issue)",
                "usize/isize are 64 bits wide on this target",
            ],
        },
        jobs,
        &[("refint", vlib::refint::self_test)],
    );
}
