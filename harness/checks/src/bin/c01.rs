//! C01 — add / sub / neg / abs are exact mod 2^BITS in every overflow mode (DESIGN.md §4 C01)

use checks::api::{width_scale, Int, SInt, UInt};
use checks::common::*;
use checks::for_all_cfgs;
use proptest::prelude::*;
use vlib::gen::{self, Shape};
use vlib::runner::{self, outcome, Outcome, Job, Obs, Property};
use vlib::{ck, Pat, Z};

const QUICK: u32 = 1500;
const FACTOR: u32 = 20;

fn edge<T: Int>(e: &Z) -> bool {
    let lo = zmin::<T>();
    let hi = zmax::<T>();
    *e == lo || *e == hi || *e == lo.add_i(-1) || *e == hi.add_i(1)
}

fn classify<T: Int>(obs: &mut Obs, a: &Pat, b: &Pat, cin: bool, sub: bool, e: &Z) {
    let sh = T::shape();
    let (cross, run) = carry_crossings(&a.0, &b.0, cin, sub, sh.digit_bytes);
    let flag = !fits::<T>(e);
    obs.nt_if(cross >= 1 || flag || edge::<T>(e));
    obs.label_if(cross >= 1, "carry crosses >=1 digit boundary");
    obs.label_if(run >= 2, "carry chain >=2 digits");
    obs.label_if(sh.n() >= 3 && run >= sh.n() - 1, "carry chain >=N-1 digits");
    obs.label_if(flag, "overflow flag set");
    obs.label_if(*e == zmin::<T>().add_i(-1) || *e == zmax::<T>().add_i(1), "overflow by exactly one");
    obs.label_if(*e == zmin::<T>() || *e == zmax::<T>(), "exact result = MIN or MAX");
}

/// add / sub in all modes, for U or I
fn add_sub<T: Int>(c: &(Pat, Pat), obs: &mut Obs) -> Result<(), String> {
    let (a, b): (T, T) = (ld(&c.0), ld(&c.1));
    let (za, zb) = (a.z(), b.z());
    let e = za.add(&zb);
    classify::<T>(obs, &c.0, &c.1, false, false, &e);
    check_family(
        "add",
        &e,
        Family {
            overflowing: Some(a.overflowing_add(b)),
            checked: Some(a.checked_add(b)),
            wrapping: Some(a.wrapping_add(b)),
            saturating: Some(a.saturating_add(b)),
            strict: Some(outcome(|| a.strict_add(b))),
        },
    )?;
    if fits::<T>(&e) {
        ck!("unchecked_add", st(&unsafe { a.unchecked_add(b) }), pz::<T>(&e));
    }
    let e = za.sub(&zb);
    classify::<T>(obs, &c.0, &c.1, false, true, &e);
    check_family(
        "sub",
        &e,
        Family {
            overflowing: Some(a.overflowing_sub(b)),
            checked: Some(a.checked_sub(b)),
            wrapping: Some(a.wrapping_sub(b)),
            saturating: Some(a.saturating_sub(b)),
            strict: Some(outcome(|| a.strict_sub(b))),
        },
    )?;
    if fits::<T>(&e) {
        ck!("unchecked_sub", st(&unsafe { a.unchecked_sub(b) }), pz::<T>(&e));
    }
    obs.note(|| format!("a={:?} b={:?} a+b={:?} overflowing_add={:?}", za, zb, za.add(&zb), a.overflowing_add(b)));
    Ok(())
}

/// carrying_add / borrowing_sub with a carry / borrow in
fn carry_borrow<T: Int>(c: &(Pat, Pat, bool), obs: &mut Obs) -> Result<(), String> {
    let (a, b): (T, T) = (ld(&c.0), ld(&c.1));
    let cin = c.2;
    let (za, zb) = (a.z(), b.z());
    let e = za.add(&zb).add_i(cin as i64);
    classify::<T>(obs, &c.0, &c.1, cin, false, &e);
    let (v, f) = a.carrying_add(b, cin);
    ck!("carrying_add value", st(&v), pz::<T>(&e));
    ck!("carrying_add flag", f, !fits::<T>(&e));
    // carry-in decisive: the flag differs between carry = 0 and carry = 1
    let e0 = za.add(&zb);
    obs.label_if(cin && fits::<T>(&e0) != fits::<T>(&e), "carry-in decisive for the flag");
    let e = za.sub(&zb).add_i(-(cin as i64));
    classify::<T>(obs, &c.0, &c.1, cin, true, &e);
    let (v, f) = a.borrowing_sub(b, cin);
    ck!("borrowing_sub value", st(&v), pz::<T>(&e));
    ck!("borrowing_sub flag", f, !fits::<T>(&e));
    let e0 = za.sub(&zb);
    obs.label_if(cin && fits::<T>(&e0) != fits::<T>(&e), "borrow-in decisive for the flag");
    obs.note(|| format!("a={:?} b={:?} c={} carrying_add={:?}", za, zb, cin, a.carrying_add(b, cin)));
    Ok(())
}

/// unsigned + signed
fn u_add_signed<U: UInt>(c: &(Pat, Pat), obs: &mut Obs) -> Result<(), String> {
    let a: U = ld(&c.0);
    let b: U::I = ld(&c.1);
    let e = a.z().add(&b.z());
    let flag = !fits::<U>(&e);
    obs.nt_if(flag || edge::<U>(&e) || carry_crossings(&c.0 .0, &c.1 .0, false, false, U::shape().digit_bytes).0 >= 1);
    obs.label_if(flag, "mixed-sign flag set");
    obs.label_if(flag && b.z().is_neg(), "add_signed underflow");
    obs.label_if(flag && !b.z().is_neg(), "add_signed overflow");
    check_family(
        "add_signed",
        &e,
        Family {
            overflowing: Some(a.overflowing_add_signed(b)),
            checked: Some(a.checked_add_signed(b)),
            wrapping: Some(a.wrapping_add_signed(b)),
            saturating: Some(a.saturating_add_signed(b)),
            strict: Some(outcome(|| a.strict_add_signed(b))),
        },
    )?;
    obs.note(|| format!("a={:?} b={:?} overflowing_add_signed={:?}", a.z(), b.z(), a.overflowing_add_signed(b)));
    Ok(())
}

/// signed +/- unsigned
fn i_add_sub_unsigned<I: SInt>(c: &(Pat, Pat), obs: &mut Obs) -> Result<(), String> {
    let a: I = ld(&c.0);
    let b: I::U = ld(&c.1);
    let e = a.z().add(&b.z());
    let flag = !fits::<I>(&e);
    obs.nt_if(flag || edge::<I>(&e) || carry_crossings(&c.0 .0, &c.1 .0, false, false, I::shape().digit_bytes).0 >= 1);
    obs.label_if(flag, "mixed-sign flag set");
    check_family(
        "add_unsigned",
        &e,
        Family {
            overflowing: Some(a.overflowing_add_unsigned(b)),
            checked: Some(a.checked_add_unsigned(b)),
            wrapping: Some(a.wrapping_add_unsigned(b)),
            saturating: Some(a.saturating_add_unsigned(b)),
            strict: Some(outcome(|| a.strict_add_unsigned(b))),
        },
    )?;
    let e = a.z().sub(&b.z());
    let flag = !fits::<I>(&e);
    obs.nt_if(flag || edge::<I>(&e));
    obs.label_if(flag, "mixed-sign flag set");
    check_family(
        "sub_unsigned",
        &e,
        Family {
            overflowing: Some(a.overflowing_sub_unsigned(b)),
            checked: Some(a.checked_sub_unsigned(b)),
            wrapping: Some(a.wrapping_sub_unsigned(b)),
            saturating: Some(a.saturating_sub_unsigned(b)),
            strict: Some(outcome(|| a.strict_sub_unsigned(b))),
        },
    )?;
    obs.note(|| format!("a={:?} b={:?} overflowing_sub_unsigned={:?}", a.z(), b.z(), a.overflowing_sub_unsigned(b)));
    Ok(())
}

/// negation for U and I (no saturating form for U)
fn neg<T: Int>(c: &Pat, obs: &mut Obs) -> Result<(), String> {
    let a: T = ld(c);
    let e = a.z().neg();
    let flag = !fits::<T>(&e);
    let zero_digits = c.0.chunks(T::shape().digit_bytes).take_while(|d| d.iter().all(|&b| b == 0)).count();
    obs.nt_if(flag || zero_digits >= 1 || edge::<T>(&e));
    obs.label_if(flag, "overflow flag set");
    obs.label_if(zero_digits >= 1 && !a.z().is_zero(), "negation borrow crosses zero low digits");
    check_family(
        "neg",
        &e,
        Family {
            overflowing: Some(a.overflowing_neg()),
            checked: Some(a.checked_neg()),
            wrapping: Some(a.wrapping_neg()),
            saturating: None,
            strict: Some(outcome(|| a.strict_neg())),
        },
    )?;
    obs.note(|| format!("a={:?} overflowing_neg={:?}", a.z(), a.overflowing_neg()));
    Ok(())
}

fn i_neg_abs<I: SInt>(c: &Pat, obs: &mut Obs) -> Result<(), String> {
    neg::<I>(c, obs)?;
    let a: I = ld(c);
    let e = a.z().neg();
    ck!("saturating_neg", st(&a.saturating_neg()), clamp::<I>(&e));
    let e = a.z().abs();
    obs.label_if(!fits::<I>(&e), "abs(MIN)");
    obs.nt_if(a.z().is_neg());
    check_family(
        "abs",
        &e,
        Family {
            overflowing: Some(a.overflowing_abs()),
            checked: Some(a.checked_abs()),
            wrapping: Some(a.wrapping_abs()),
            saturating: Some(a.saturating_abs()),
            strict: Some(outcome(|| a.strict_abs())),
        },
    )?;
    ck!("unsigned_abs", st(&a.unsigned_abs()), pz::<I::U>(&e));
    if fits::<I>(&e) {
        ck!("num_traits::Signed::abs (sibling entry point)", oc(|| a.nt_abs()), Outcome::Returned(pz::<I>(&e)));
    }
    Ok(())
}

/// abs_diff and midpoint (U: floor, I: toward zero; never overflow, never panic)
fn absdiff_midpoint<T: Int>(c: &(Pat, Pat), obs: &mut Obs) -> Result<(), String> {
    let (a, b): (T, T) = (ld(&c.0), ld(&c.1));
    let (za, zb) = (a.z(), b.z());
    let d = za.sub(&zb).abs();
    ck!("abs_diff", st(&a.abs_diff(b)), pz::<T::U>(&d));
    let s = za.add(&zb);
    let two = Z::from_i64(2);
    let m = if T::SIGNED { s.divrem_trunc(&two).0 } else { s.divrem_floor(&two).0 };
    let got = outcome(|| a.midpoint(b));
    ck!("midpoint (must not overflow or panic)", got.map(|v| st(&v)), runner::Outcome::Returned(pz::<T>(&m)));
    let sum_overflows = !fits::<T>(&s);
    obs.nt_if(sum_overflows || !fits::<T>(&za.sub(&zb)) || (T::SIGNED && s.is_neg() && s.is_odd()));
    obs.label_if(sum_overflows, "midpoint: a+b not representable");
    obs.label_if(T::SIGNED && s.is_neg() && s.is_odd(), "midpoint: negative odd sum (rounding toward zero matters)");
    obs.label_if(!fits::<T>(&za.sub(&zb)), "abs_diff: a-b not representable in Self");
    obs.note(|| format!("a={:?} b={:?} midpoint={:?} abs_diff={:?}", za, zb, m, d));
    Ok(())
}

fn jobs_for<U: UInt, I: SInt<U = U, I = <U as Int>::I>>(jobs: &mut Vec<Job>)
where
    U: Int<I = I>,
{
    let sh: Shape = U::shape();
    let sc = width_scale(U::W);
    let q = move |base: u32| ((base as f64 * sc).ceil() as u32).max(20);

    jobs.push(Job::new(job_name::<U>("u/add_sub"), move |ctx| {
        ctx.run("add_sub", ctx.budget(q(QUICK), FACTOR), gen::pattern_pair(sh), add_sub::<U>);
    }));
    jobs.push(Job::new(job_name::<U>("i/add_sub"), move |ctx| {
        ctx.run("add_sub", ctx.budget(q(QUICK), FACTOR), gen::pattern_pair(sh), add_sub::<I>);
    }));
    jobs.push(Job::new(job_name::<U>("u/carry_borrow"), move |ctx| {
        ctx.run("carry_borrow", ctx.budget(q(QUICK), FACTOR), (gen::pattern_pair(sh), any::<bool>()).prop_map(|((a, b), c)| (a, b, c)), carry_borrow::<U>);
    }));
    jobs.push(Job::new(job_name::<U>("i/carry_borrow"), move |ctx| {
        ctx.run("carry_borrow", ctx.budget(q(QUICK), FACTOR), (gen::pattern_pair(sh), any::<bool>()).prop_map(|((a, b), c)| (a, b, c)), carry_borrow::<I>);
    }));
    jobs.push(Job::new(job_name::<U>("u/add_signed"), move |ctx| {
        ctx.run("add_signed", ctx.budget(q(QUICK), FACTOR), gen::pattern_pair(sh), u_add_signed::<U>);
    }));
    jobs.push(Job::new(job_name::<U>("i/add_sub_unsigned"), move |ctx| {
        ctx.run("add_sub_unsigned", ctx.budget(q(QUICK), FACTOR), gen::pattern_pair(sh), i_add_sub_unsigned::<I>);
    }));
    jobs.push(Job::new(job_name::<U>("sweep"), move |ctx| {
        let full = ctx.tier() == vlib::Tier::Thorough;
        // deterministic: a carry / borrow chain ending at EVERY bit position, and the signed edge products of powers of two
        ctx.enumerate("add_sub_u", "position pairs for every bit position", position_pairs(sh, full), add_sub::<U>);
        ctx.enumerate("add_sub_i", "position pairs for every bit position", position_pairs(sh, full), add_sub::<I>);
        ctx.enumerate("carry_u", "position pairs x carry for every bit position", position_pairs(sh, full).flat_map(|(a, b)| [false, true].into_iter().map(move |c| (a.clone(), b.clone(), c))), carry_borrow::<U>);
        ctx.enumerate("carry_i", "position pairs x carry for every bit position", position_pairs(sh, full).flat_map(|(a, b)| [false, true].into_iter().map(move |c| (a.clone(), b.clone(), c))), carry_borrow::<I>);
        ctx.enumerate("mixed_u", "position pairs for every bit position", position_pairs(sh, full), u_add_signed::<U>);
        ctx.enumerate("mixed_i", "position pairs for every bit position", position_pairs(sh, full), i_add_sub_unsigned::<I>);
        ctx.enumerate("mid_u", "position pairs for every bit position", position_pairs(sh, full), absdiff_midpoint::<U>);
        ctx.enumerate("mid_i", "position pairs for every bit position", position_pairs(sh, full), absdiff_midpoint::<I>);
        ctx.enumerate("neg_u", "2^k - 1, 2^k, 2^k + 1, negations, complements for every k", position_values(sh, full), neg::<U>);
        ctx.enumerate("neg_abs_i", "2^k - 1, 2^k, 2^k + 1, negations, complements for every k", position_values(sh, full), i_neg_abs::<I>);
    }));
    jobs.push(Job::new(job_name::<U>("u/neg"), move |ctx| {
        ctx.run("neg", ctx.budget(q(QUICK / 2), FACTOR), gen::pattern(sh), neg::<U>);
    }));
    jobs.push(Job::new(job_name::<U>("i/neg_abs"), move |ctx| {
        ctx.run("neg_abs", ctx.budget(q(QUICK / 2), FACTOR), gen::pattern(sh), i_neg_abs::<I>);
    }));
    jobs.push(Job::new(job_name::<U>("u/absdiff_midpoint"), move |ctx| {
        ctx.run("absdiff_midpoint", ctx.budget(q(QUICK), FACTOR), gen::pattern_pair(sh), absdiff_midpoint::<U>);
    }));
    jobs.push(Job::new(job_name::<U>("i/absdiff_midpoint"), move |ctx| {
        ctx.run("absdiff_midpoint", ctx.budget(q(QUICK), FACTOR), gen::pattern_pair(sh), absdiff_midpoint::<I>);
    }));
}

/// small-scope tier: the 8-bit configuration completely
fn exhaustive8(jobs: &mut Vec<Job>) {
    type U8 = bnum::BUintD8<1>;
    type I8 = bnum::BIntD8<1>;
    jobs.push(Job::new("small/exhaustive8@D8x1", |ctx| {
        let triples = || (0..=255u8).flat_map(|a| (0..=255u8).flat_map(move |b| [false, true].into_iter().map(move |c| (Pat(vec![a]), Pat(vec![b]), c))));
        ctx.enumerate("u_carry_borrow", "all (a, b, carry) of BUintD8<1>", triples(), carry_borrow::<U8>);
        ctx.enumerate("i_carry_borrow", "all (a, b, carry) of BIntD8<1>", triples(), carry_borrow::<I8>);
        let pairs = || (0..=255u8).flat_map(|a| (0..=255u8).map(move |b| (Pat(vec![a]), Pat(vec![b]))));
        ctx.enumerate("u_add_sub", "all (a, b) of BUintD8<1>", pairs(), add_sub::<U8>);
        ctx.enumerate("i_add_sub", "all (a, b) of BIntD8<1>", pairs(), add_sub::<I8>);
        ctx.enumerate("u_add_signed", "all (a, b) of BUintD8<1> x BIntD8<1>", pairs(), u_add_signed::<U8>);
        ctx.enumerate("i_add_sub_unsigned", "all (a, b) of BIntD8<1> x BUintD8<1>", pairs(), i_add_sub_unsigned::<I8>);
        ctx.enumerate("u_absdiff_midpoint", "all (a, b) of BUintD8<1>", pairs(), absdiff_midpoint::<U8>);
        ctx.enumerate("i_absdiff_midpoint", "all (a, b) of BIntD8<1>", pairs(), absdiff_midpoint::<I8>);
        let singles = || (0..=255u8).map(|a| Pat(vec![a]));
        ctx.enumerate("u_neg", "all a of BUintD8<1>", singles(), neg::<U8>);
        ctx.enumerate("i_neg_abs", "all a of BIntD8<1>", singles(), i_neg_abs::<I8>);
    }));
}

fn main() {
    let mut jobs = Vec::new();
    macro_rules! add {
        ($U:ty, $I:ty) => {
            jobs_for::<$U, $I>(&mut jobs);
            checks::siblings::topic_jobs::<$U, $I>(&mut jobs, checks::siblings::Group::AddSub, 150, FACTOR);
        };
    }
    for_all_cfgs!(add);
    exhaustive8(&mut jobs);
    runner::main(
        Property {
            id: "C01",
            rule: "Operands are W-bit patterns from a weighted union of constructive generators (uniform, 0/1 bit runs aligned to digit boundaries, extreme digits, boundary values, short values) with the second operand independent or derived from the first (a, -a, !a, a+-1, a+-2^k, shared top digits); each case evaluates every overflow mode (overflowing/checked/wrapping/saturating/strict/unchecked) of the operation against exact arithmetic in an independent reference integer. A case is NON-TRIVIAL when a carry/borrow propagates across at least one digit boundary, or the overflow flag is set, or the exact result is one of MIN-1, MIN, MAX, MAX+1 (for neg: low zero digits; for abs: negative operand). distinct = distinct (build profile, job, inputs) among non-trivial cases, by 64-bit hash. The 8-bit configuration is enumerated completely (see exhaustive_parts). A deterministic SWEEP additionally enumerates, per configuration, position-specific inputs (2^k - 1, 2^k, 2^k + 1 with their negations and complements; carry / borrow chains and power-of-two products ending at every bit position k; every shift / rotate amount; every bit index; every float exponent) - all positions on types up to 1088 bits, a sparse selection of a few hundred positions on wider types in the quick tier, all positions in the thorough tier. SIBLINGS job (per configuration): the entry points of this property's own operations that other properties anchor - the six operand forms of the std operators (a op b, &a op b, a op &b, &a op &b, a op= b, a op= &b; for shifts every primitive and bnum-typed amount type), Sum/Product, and the num_traits forwarders - are compared with the inherent method / const twin (same value, same panic outcome), so that a regression confined to one rarely used entry point is reported by the check of the operation it belongs to as well as by C17/C18.",
            assumptions: &[
                "digits()/from_digits()/to_bits()/from_bits() are the trusted observation channel (their own contract is checked under C13)",
                "reference integer Z (vlib::refint) is correct: self-tested against i128/u128 and python-generated vectors on every run",
                "43 (digit, N) configurations sample 'every N >= 1'",
            ],
        },
        jobs,
        &[("refint", vlib::refint::self_test)],
    );
}
