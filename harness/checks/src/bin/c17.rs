//! C17 — operator traits, assign forms, reference forms and iterator folds agree with the inherent
//! methods, including the panic outcome (DESIGN.md §4 C17). Built and run in both profiles.
//! Reference forms (`&a + &b`, `a <<= &s`, ...) need concrete types; they live in checks::forms,
//! written once per digit family, so this check is an ordinary generic function.

use checks::api::{Int, SInt, UInt};
use checks::common::*;
use checks::for_all_cfgs;
use proptest::prelude::*;
use std::cmp::Ordering;
use vlib::gen::{self, Digit, Shape};
use vlib::runner::{self, outcome, Job, Obs, Outcome, Property};
use vlib::{ck, Pat, Z};

const QUICK: u32 = 600;
const FACTOR: u32 = 20;

use checks::forms::{Forms, NegForms};
use checks::siblings::{fold_seqs, heavy_pairs, shift_amounts, Group};

fn binop_eval<T: Forms>(c: &(Pat, Pat), obs: &mut Obs) -> Result<(), String> {
    checks::siblings::binop_forms::<T>(Group::All, c, obs)
}
fn neg_eval<I: SInt + NegForms>(c: &Pat, obs: &mut Obs) -> Result<(), String> {
    checks::siblings::neg_forms::<I>(c, obs)
}
fn shift_eval<T: Forms>(c: &(Pat, i128), obs: &mut Obs) -> Result<(), String> {
    checks::siblings::shift_forms::<T>(c, obs)
}
fn folds_eval<T: Forms>(c: &Vec<Pat>, obs: &mut Obs) -> Result<(), String> {
    checks::siblings::fold_forms::<T>(Group::All, c, obs)
}

fn misc_eval<T: Int>(c: &Pat, obs: &mut Obs) -> Result<(), String> {
    let a: T = ld(c);
    obs.nt();
    ck!("Default is ZERO", st(&T::default()), st(&T::k_zero()));
    let text = a.to_str_radix(10);
    ck!("FromStr == from_str_radix(.., 10)", text.parse::<T>().ok().map(|v| st(&v)), T::from_str_radix(&text, 10).ok().map(|v| st(&v)));
    for bad in ["", "+", "-", "12x", " 1", "999999999999999999999999999999999999999999999999999999999999999999999999999999999999999999999999999999"] {
        ck!(format!("FromStr({bad:?}) == from_str_radix"), bad.parse::<T>().map(|v| st(&v)).map_err(|e| format!("{:?}", e.kind())), T::from_str_radix(bad, 10).map(|v| st(&v)).map_err(|e| format!("{:?}", e.kind())));
    }
    Ok(())
}

/// digit-operand forms of unsigned types: Add<digit>, Div<digit>, Rem<digit>
fn digit_eval<U: UInt>(c: &(Pat, u64), obs: &mut Obs) -> Result<(), String> {
    let a: U = ld(&c.0);
    let mask = u64::MAX >> (64 - U::DIGIT_BITS);
    let dv = c.1 & mask;
    let d = <U::D as Digit>::from_u64(dv);
    let wide: U = U::from_digit_u64(dv);
    obs.nt();
    // Add<digit>: only when the exact sum is representable (the impl wraps silently otherwise)
    if fits::<U>(&a.z().add(&Z::from_u64(dv))) {
        ck!("a + digit == a + from_digit(digit)", oc(|| a + d), oc(|| a + wide));
    } else {
        obs.label("Add<digit> overflow (outside the property)");
    }
    ck!("a / digit == a / from_digit(digit) (incl. the panic for zero)", oc(|| a / d), oc(|| a / wide));
    let r1 = outcome(|| Z::from_u64((a % d).to_u64()));
    let r2 = outcome(|| (a % wide).z());
    ck!("a % digit == a % from_digit(digit) (incl. the panic for zero)", r1, r2);
    obs.label_if(dv == 0, "zero digit divisor (both panic)");
    Ok(())
}

/// Model-based history check: a generated program of op-assign steps is run twice, once through
/// the assign / reference trait forms and once through the const inherent twins; after every step
/// the accumulator (or the panic outcome, which ends the program) must be identical, and in the
/// wrapping (rel) profile also equal to the reference integer reduced modulo 2^BITS.
fn program_eval<T: Forms>(c: &(Pat, Vec<(u8, Pat, u32)>), obs: &mut Obs) -> Result<(), String> {
    let mut via_traits: T = ld(&c.0);
    let mut via_inherent: T = via_traits;
    let mut model = via_traits.z();
    let w = T::W as u64;
    obs.nt_if(c.1.len() >= 3);
    for (step, (opc, operand, amount)) in c.1.iter().enumerate() {
        let b: T = ld(operand);
        let s = amount % T::W;
        let form = 4 + (opc >> 7); // `a op= b` or `a op= &b`
        let (x, y) = (via_traits, via_inherent);
        let (t, i, m): (Outcome<Pat>, Outcome<Pat>, Option<Z>) = match opc % 10 {
            0 => (oc(|| T::f_add(x, b, form)), oc(|| y.c_add(b)), Some(model.add(&b.z()))),
            1 => (oc(|| T::f_sub(x, b, form)), oc(|| y.c_sub(b)), Some(model.sub(&b.z()))),
            2 => (oc(|| T::f_mul(x, b, form)), oc(|| y.c_mul(b)), Some(model.mul(&b.z()))),
            3 => (oc(|| T::f_div(x, b, form)), oc(|| y.c_div(b)), None),
            4 => (oc(|| T::f_rem(x, b, form)), oc(|| y.c_rem(b)), None),
            5 => (oc(|| T::f_bitand(x, b, form)), oc(|| y.c_bitand(b)), None),
            6 => (oc(|| T::f_bitor(x, b, form)), oc(|| y.c_bitor(b)), None),
            7 => (oc(|| T::f_bitxor(x, b, form)), oc(|| y.c_bitxor(b)), None),
            8 => (oc(|| T::f_shift_u32(x, true, s, form)), oc(|| y.c_shl(s)), Some(model.shl(s as u64))),
            _ => (oc(|| T::f_shift_u32(x, false, s, form)), oc(|| y.c_shr(s)), Some(model.shr_floor(s as u64))),
        };
        ck!(format!("step {step} (opcode {}): assign form vs inherent method", opc % 10), t.clone(), i.clone());
        match t {
            Outcome::Panic(_) => {
                obs.label("program ended by a panic (same step in both interpreters)");
                return Ok(());
            }
            Outcome::Returned(p) => {
                via_traits = ld(&p);
                via_inherent = via_traits;
                match m {
                    // arithmetic steps: in a wrapping build (and in a debug build when no panic
                    // occurred) the accumulator is the exact result reduced modulo 2^BITS
                    Some(z) => {
                        let z = z.wrap(w, T::SIGNED);
                        ck!(format!("step {step}: accumulator equals the model"), via_traits.z(), z.clone());
                        model = z;
                    }
                    None => model = via_traits.z(),
                }
            }
        }
    }
    Ok(())
}

fn jobs_for<U, I>(jobs: &mut Vec<Job>)
where
    U: UInt + Int<I = I> + Forms,
    I: SInt + Int<U = U> + Forms + NegForms,
{
    let sh: Shape = U::shape();
    let big = U::W > 1100;
    let q = move |n: u32| if big { (n / 6).max(20) } else { n };
    jobs.push(Job::new(job_name::<U>("binop_forms"), move |ctx| {
        ctx.run("u", ctx.budget(q(QUICK), FACTOR), heavy_pairs(sh), binop_eval::<U>);
        ctx.run("i", ctx.budget(q(QUICK), FACTOR), heavy_pairs(sh), binop_eval::<I>);
        ctx.run("neg", ctx.budget(q(QUICK / 2), FACTOR), prop_oneof![gen::pattern(sh), gen::boundary(sh)], neg_eval::<I>);
    }));
    jobs.push(Job::new(job_name::<U>("shift_forms"), move |ctx| {
        ctx.run("u", ctx.budget(q(QUICK), FACTOR), (gen::pattern(sh), shift_amounts(sh)), shift_eval::<U>);
        ctx.run("i", ctx.budget(q(QUICK), FACTOR), (gen::pattern(sh), shift_amounts(sh)), shift_eval::<I>);
    }));
    jobs.push(Job::new(job_name::<U>("folds"), move |ctx| {
        let seqs = || fold_seqs(sh);
        ctx.run("u", ctx.budget(q(QUICK / 2), FACTOR), seqs(), folds_eval::<U>);
        ctx.run("i", ctx.budget(q(QUICK / 2), FACTOR), seqs(), folds_eval::<I>);
    }));
    jobs.push(Job::new(job_name::<U>("program"), move |ctx| {
        // histories of 0..=12 op-assign steps; small operands are frequent so that products and sums stay representable for a while
        let operand = prop_oneof![2 => gen::pattern(sh), 3 => (0u64..9).prop_map(move |x| Pat(Z::from_u64(x).to_le_wrapped(sh.bytes))), 1 => gen::boundary(sh)];
        let progs = || (gen::pattern(sh), proptest::collection::vec((any::<u8>(), operand.clone(), gen::amount(sh)), 0..=12));
        ctx.run("u", ctx.budget(q(QUICK / 2), FACTOR), progs(), program_eval::<U>);
        ctx.run("i", ctx.budget(q(QUICK / 2), FACTOR), progs(), program_eval::<I>);
    }));
    jobs.push(Job::new(job_name::<U>("fromstr_default_digit"), move |ctx| {
        ctx.run("misc_u", ctx.budget(q(QUICK / 4), FACTOR), gen::pattern(sh), misc_eval::<U>);
        ctx.run("misc_i", ctx.budget(q(QUICK / 4), FACTOR), gen::pattern(sh), misc_eval::<I>);
        ctx.run("digit", ctx.budget(q(QUICK / 2), FACTOR), (gen::pattern(sh), gen::digit_value(sh.digit_bytes)), digit_eval::<U>);
    }));
}

fn main() {
    let mut jobs: Vec<Job> = Vec::new();
    macro_rules! add {
        ($U:ty, $I:ty) => {
            jobs_for::<$U, $I>(&mut jobs);
        };
    }
    for_all_cfgs!(add);
    runner::main(
        Property {
            id: "C17",
            rule: "Run in both build profiles. Operands weighted towards overflowing inputs (structured pairs, boundary x boundary, zero divisors); shift amounts from {0, 1, W-1, W, W+1, T::MIN, T::MAX, values above u32::MAX, uniform}; sequences of 0..=8 elements for the folds; digit operands incl. 0 and MAX. Oracle (the property's own): Outcome(trait form) == Outcome(reference form), including the panic outcome (catch_unwind): all four value/reference combinations and both op-assign forms of + - * / % & | ^ against the const inherent twin; -a / -&a / !a / !&a against neg / not; for each of the twelve primitive amount types the five reference/assign forms of << and >> against the by-value form, and the by-value form against shl/shr(s as u32) when 0 <= s <= u32::MAX; bnum-typed amounts below BITS (BUint/BInt of the same digit family with 1, 3 and N digits) against shl/shr; Sum/Product by value and by reference against the explicit left fold from ZERO/ONE; generated PROGRAMS of 0..=12 op-assign steps (+= -= *= /= %= &= |= ^= <<= >>= with value and reference right-hand sides) interpreted once through the trait forms and once through the inherent methods, compared after every step (a panic must occur at the same step) and against the reference integer for the arithmetic steps; Default; PartialEq/PartialOrd/Ord methods against the const twins; FromStr against from_str_radix(.., 10) (value and error kind); Add/Div/Rem<digit> against the same operation on from_digit(d) (Add only when representable, as the property states). NON-TRIVIAL: every case exercises non-default forms; the labelled classes count panic outcomes. distinct = distinct (profile, job, inputs) by 64-bit hash.",
            assumptions: &[
                "this property is about agreement between forms; the correctness of the inherent methods themselves is C01-C08",
                "bnum-typed shift amounts >= BITS and Add<digit> on overflow are outside the property",
            ],
        },
        jobs,
        &[("refint", vlib::refint::self_test)],
    );
}
