//! C20 — random generation stays in range, is unbiased by construction, fills every bit (DESIGN.md §4 C20)

use bnum::random::{try_fill_slice, Slice};
use checks::api::{Int, SInt, UInt};
use checks::common::*;
use checks::for_all_cfgs;
use proptest::prelude::*;
use rand::distributions::uniform::{SampleUniform, UniformSampler};
use rand::distributions::{Distribution, Standard, Uniform};
use rand::{Fill, Rng};
use vlib::case::Bytes;
use vlib::gen::{self, Shape};
use vlib::runner::{self, outcome, Job, Obs, Outcome, Property};
use vlib::script_rng::{stream_byte, ScriptRng};
use vlib::{ck, Pat, Z};

const QUICK: u32 = 600;
const FACTOR: u32 = 20;

pub trait Rnd: Int + SampleUniform
where
    Standard: Distribution<Self>,
    Slice<Self>: Fill,
{
}
impl<T> Rnd for T
where
    T: Int + SampleUniform,
    Standard: Distribution<T>,
    Slice<T>: Fill,
{
}

fn word(script: &[u8], index: usize, nb: usize) -> Vec<u8> {
    (0..nb).map(|i| stream_byte(script, index * nb + i)).collect()
}

/// Standard sampling and Fill derive every digit from the stream in little-endian order
fn eval_standard_fill<T: Int + SampleUniform>(c: &(Bytes, u8), obs: &mut Obs) -> Result<(), String>
where
    Standard: Distribution<T>,
    Slice<T>: Fill,
{
    let script = &c.0 .0;
    let k = (c.1 % 6) as usize;
    let nb = (T::W / 8) as usize;
    obs.nt_if(script.len() >= nb);
    let mut rng = ScriptRng::new(script);
    let x: T = rng.gen();
    ck!("gen() takes the stream bytes in little-endian order", st(&x), Pat(word(script, 0, nb)));
    ck!("gen() consumes exactly BYTES bytes", rng.consumed(), nb);
    let y: T = rng.gen();
    ck!("second gen() continues the stream", st(&y), Pat(word(script, 1, nb)));
    // slice fill == filling each element in turn
    let mut arr = vec![T::k_one(); k];
    let mut rng = ScriptRng::new(script);
    ck!("try_fill_slice succeeds", outcome(|| try_fill_slice(&mut arr[..], &mut rng).is_ok()), Outcome::Returned(true));
    ck!("slice fill consumes k * BYTES bytes", rng.consumed(), k * nb);
    let mut rng2 = ScriptRng::new(script);
    for (i, e) in arr.iter().enumerate() {
        let g: T = rng2.gen();
        ck!(format!("slice element {i} == {i}-th successive gen()"), st(e), st(&g));
        ck!(format!("slice element {i} == stream word {i}"), st(e), Pat(word(script, i, nb)));
    }
    // Fill::try_fill on the Slice wrapper is the same operation
    let mut arr2 = vec![T::k_one(); k];
    let mut rng3 = ScriptRng::new(script);
    {
        let s: &mut Slice<T> = unsafe { &mut *(&mut arr2[..] as *mut [T] as *mut Slice<T>) };
        ck!("Fill::try_fill succeeds", outcome(|| Fill::try_fill(s, &mut rng3).is_ok()), Outcome::Returned(true));
    }
    ck!("Fill::try_fill == try_fill_slice", arr2.iter().map(|e| st(e)).collect::<Vec<_>>(), arr.iter().map(|e| st(e)).collect::<Vec<_>>());
    obs.label_if(k == 0, "empty slice");
    Ok(())
}

#[derive(Clone, Copy, Debug, PartialEq)]
enum Api {
    GenRangeIncl,
    UniformIncl,
    SingleIncl,
    GenRange,
    UniformExcl,
    SingleExcl,
}

fn call<T: Int + SampleUniform>(api: Api, lo: T, hi: T, rng: &mut ScriptRng) -> T {
    match api {
        Api::GenRangeIncl => rng.gen_range(lo..=hi),
        Api::UniformIncl => Uniform::new_inclusive(lo, hi).sample(rng),
        Api::SingleIncl => <T::Sampler as UniformSampler>::sample_single_inclusive(lo, hi, rng),
        Api::GenRange => rng.gen_range(lo..hi),
        Api::UniformExcl => Uniform::new(lo, hi).sample(rng),
        Api::SingleExcl => <T::Sampler as UniformSampler>::sample_single(lo, hi, rng),
    }
}

/// membership and the exact word -> value mapping for every API
fn eval_range<T: Int + SampleUniform>(c: &(Pat, Pat, Bytes), obs: &mut Obs) -> Result<(), String> {
    let (p, q): (T, T) = (ld(&c.0), ld(&c.1));
    let (lo, hi, zlo, zhi) = if p.z() <= q.z() { (p, q, p.z(), q.z()) } else { (q, p, q.z(), p.z()) };
    let script = &c.2 .0;
    let nb = (T::W / 8) as usize;
    let w = T::W as u64;
    let size_incl = zhi.sub(&zlo).add_i(1);
    let full = size_incl == Z::pow2(w);
    obs.nt_if(full || size_incl == Z::one() || size_incl.trailing_zeros().map_or(true, |tz| tz + 1 != size_incl.bit_len()));
    obs.label_if(full, "full range");
    obs.label_if(size_incl == Z::one(), "range of size 1");
    obs.label_if(T::SIGNED && zlo.is_neg() && !zhi.is_neg(), "signed range spanning zero");
    obs.label_if(size_incl.bit_len() + 6 >= w, "range >= 2^(W-6)");
    for api in [Api::GenRangeIncl, Api::UniformIncl, Api::SingleIncl, Api::GenRange, Api::UniformExcl, Api::SingleExcl] {
        let excl = matches!(api, Api::GenRange | Api::UniformExcl | Api::SingleExcl);
        if excl && zlo == zhi {
            continue; // empty half-open range: documented to panic
        }
        let size = if excl { size_incl.add_i(-1) } else { size_incl.clone() };
        let top = if excl { zhi.add_i(-1) } else { zhi.clone() };
        let mut rng = ScriptRng::new(script);
        let r = match outcome(|| call(api, lo, hi, &mut rng)) {
            Outcome::Returned(r) => r,
            Outcome::Panic(m) => return Err(format!("{:?} on [{:?}, {:?}] panicked: {}", api, zlo, zhi, m)),
        };
        let zr = r.z();
        vlib::ck_true!(format!("{:?}: result {:?} inside [{:?}, {:?}]", api, zr, zlo, top), zr >= zlo && zr <= top);
        let used = rng.consumed();
        vlib::ck_true!(format!("{:?}: consumed a whole number (>= 1) of words ({} bytes)", api, used), used >= nb && used % nb == 0);
        obs.label_if(used > nb, "at least one word rejected");
        // the last word drawn is the accepted one: result = lo + floor(v * size / 2^W)
        let v = Z::from_le_unsigned(&word(script, used / nb - 1, nb));
        let expect = if size == Z::pow2(w) { Z::from_le(&word(script, used / nb - 1, nb), T::SIGNED) } else { zlo.add(&v.mul(&size).shr_floor(w)) };
        ck!(format!("{:?}: value for the accepted word (lo + floor(v * range / 2^W))", api), zr, expect);
    }
    Ok(())
}

fn range_cases(sh: Shape) -> BoxedStrategy<(Pat, Pat, Bytes)> {
    let nb = sh.bytes;
    let wrap = move |z: Z| Pat(z.to_le_wrapped(nb));
    let w = sh.bits() as u64;
    let bounds = prop_oneof![
        3 => gen::pattern_pair(sh),
        // ranges of special sizes starting anywhere: 1, 2, 2^k, 2^k +- 1, 2^W - 1, full
        4 => (gen::pattern(sh), 0u64..w, -1i64..=1, 0u8..6).prop_map(move |(lo, k, e, sel)| {
            let zlo = Z::from_le_unsigned(&lo.0);
            let size = match sel {
                0 => Z::one(),
                1 => Z::from_i64(2),
                2 => Z::pow2(w).add_i(-1),
                3 => Z::pow2(w),
                _ => Z::pow2(k).add_i(e),
            };
            let size = if size < Z::one() { Z::one() } else { size };
            (lo.clone(), wrap(zlo.add(&size).add_i(-1)))
        }),
        1 => (gen::boundary(sh), gen::boundary(sh)),
    ];
    // scripts: words near the acceptance boundary matter; also all-ones words, zero words, uniform
    let scripts = proptest::collection::vec(prop_oneof![2 => Just(0xffu8), 1 => Just(0u8), 1 => Just(0xfeu8), 1 => Just(0x80u8), 3 => any::<u8>()], 0..(3 * nb + 1));
    let structured_words = (gen::pattern(sh), gen::pattern(sh), gen::pattern(sh)).prop_map(|(a, b, c)| {
        let mut v = a.0;
        v.extend(b.0);
        v.extend(c.0);
        v
    });
    (bounds, prop_oneof![scripts, structured_words]).prop_map(|((a, b), s)| (a, b, Bytes(s))).boxed()
}

/// Unbiasedness where the whole word space can be enumerated: for one range, all words; the
/// multiset of results over ACCEPTED words contains every value of the range equally often.
fn eval_unbiased_all_words<T: Int + SampleUniform>(c: &(Pat, Pat), obs: &mut Obs) -> Result<(), String> {
    let (p, q): (T, T) = (ld(&c.0), ld(&c.1));
    let (lo, hi, zlo, zhi) = if p.z() <= q.z() { (p, q, p.z(), q.z()) } else { (q, p, q.z(), p.z()) };
    let nb = (T::W / 8) as usize;
    assert!(nb <= 2, "word-space enumeration only for 8- and 16-bit types");
    let nwords: u32 = 1 << T::W;
    let size = zhi.sub(&zlo).add_i(1).to_u64().unwrap() as usize;
    obs.nt_if(size & (size - 1) != 0);
    obs.label_if(size & (size - 1) != 0, "range size not a power of two");
    for api in [Api::UniformIncl, Api::SingleIncl] {
        let mut counts = vec![0u32; size];
        let mut accepted = 0u32;
        for v in 0..nwords {
            let script = (v as u16).to_le_bytes();
            let mut rng = ScriptRng::new(&script[..nb]);
            let r = call(api, lo, hi, &mut rng);
            if rng.consumed() == nb {
                accepted += 1;
                let off = r.z().sub(&zlo);
                let idx = off.to_u64().filter(|&i| (i as usize) < size);
                match idx {
                    Some(i) => counts[i as usize] += 1,
                    None => return Err(format!("{:?}: word {v} gives {:?}, outside [{:?}, {:?}]", api, r.z(), zlo, zhi)),
                }
            }
        }
        vlib::runner::count_cmp(1);
        let first = counts[0];
        if first == 0 || counts.iter().any(|&n| n != first) {
            let (mn, mx) = (counts.iter().min().unwrap(), counts.iter().max().unwrap());
            return Err(format!("{:?} on [{:?}, {:?}]: accepted words are not spread evenly over the range: preimage counts range from {} to {} ({} words accepted)", api, zlo, zhi, mn, mx, accepted));
        }
    }
    Ok(())
}

/// Unbiasedness at larger widths: for a range of size >= 2^(W-6) every candidate word for a chosen
/// output value h can be enumerated (at most 65): equally many accepted for every sampled h.
fn eval_unbiased_wide<T: Int + SampleUniform>(c: &(Pat, Pat, Pat, Pat), obs: &mut Obs) -> Result<(), String> {
    let (p, q): (T, T) = (ld(&c.0), ld(&c.1));
    let (lo, hi, zlo, zhi) = if p.z() <= q.z() { (p, q, p.z(), q.z()) } else { (q, p, q.z(), p.z()) };
    let w = T::W as u64;
    let nb = (T::W / 8) as usize;
    let size = zhi.sub(&zlo).add_i(1);
    // the number of candidate words per output value is about 2^W / size: enumerate when it is at
    // most 65 (any width) or at most 2^16 + 1 (types of at most 32 bits)
    let slack = if w <= 32 { 16 } else { 6 };
    if size == Z::pow2(w) || size.bit_len() + slack < w {
        return Ok(());
    }
    obs.nt_if(size.trailing_zeros().map_or(true, |tz| tz + 1 != size.bit_len()));
    let two_w = Z::pow2(w);
    let hs = [Z::zero(), Z::one().divrem_trunc(&size).1, size.add_i(-1), size.shr_floor(1), Z::from_le_unsigned(&c.2 .0).divrem_trunc(&size).1, Z::from_le_unsigned(&c.3 .0).divrem_trunc(&size).1];
    for api in [Api::UniformIncl, Api::SingleIncl] {
        let mut reference: Option<u32> = None;
        for h in &hs {
            // candidates: ceil(h * 2^W / size) <= v < ceil((h+1) * 2^W / size)
            let first = h.mul(&two_w).divrem_ceil(&size).0;
            let last = h.add_i(1).mul(&two_w).divrem_ceil(&size).0;
            let mut accepted = 0u32;
            let mut v = first.clone();
            while v < last {
                let script = v.to_le_wrapped(nb);
                let mut rng = ScriptRng::new(&script);
                let r = call(api, lo, hi, &mut rng);
                if rng.consumed() == nb {
                    accepted += 1;
                    vlib::ck_true!(format!("{:?}: accepted word maps to lo + h", api), r.z() == zlo.add(h));
                }
                v = v.add_i(1);
            }
            vlib::runner::count_cmp(1);
            match reference {
                None => reference = Some(accepted),
                Some(n) if n != accepted => return Err(format!("{:?} on [{:?}, {:?}]: the value lo+{:?} has {} accepted preimages but lo+{:?} has {}", api, zlo, zhi, hs[0], n, h, accepted)),
                _ => {}
            }
            if accepted == 0 {
                return Err(format!("{:?} on [{:?}, {:?}]: the value lo+{:?} has no accepted preimage", api, zlo, zhi, h));
            }
        }
    }
    obs.label(if size.bit_len() + 6 < w { "medium range (<= 32-bit type): up to 2^16 candidate words of 6 output values enumerated" } else { "wide range: all candidate words of 6 output values enumerated" });
    Ok(())
}

/// is the single word `v` accepted by the sampler (no further word drawn)?
fn accepts<T: Int + SampleUniform>(api: Api, lo: T, hi: T, v: &[u8]) -> (bool, T) {
    let mut rng = ScriptRng::new(v);
    let r = call(api, lo, hi, &mut rng);
    (rng.consumed() == v.len(), r)
}

/// Acceptance is a property of the WORD (the samplers accept a *set* of words): a word that is
/// rejected when it comes first must be rejected wherever it occurs, however many rejections
/// precede it. Script: K copies of a rejected word followed by an accepted word.
fn eval_stateless_rejection<T: Int + SampleUniform>(c: &(Pat, Pat, Vec<Pat>, u32), obs: &mut Obs) -> Result<(), String> {
    let (p, q): (T, T) = (ld(&c.0), ld(&c.1));
    let (lo, hi, zlo, zhi) = if p.z() <= q.z() { (p, q, p.z(), q.z()) } else { (q, p, q.z(), p.z()) };
    let nb = (T::W / 8) as usize;
    let k = c.3 as usize;
    for api in [Api::UniformIncl, Api::SingleIncl, Api::GenRangeIncl] {
        let mut rejected: Option<&Pat> = None;
        let mut accepted: Option<&Pat> = None;
        for w in &c.2 {
            let (acc, _) = accepts(api, lo, hi, &w.0);
            if acc && accepted.is_none() {
                accepted = Some(w);
            }
            if !acc && rejected.is_none() {
                rejected = Some(w);
            }
        }
        let (Some(rej), Some(acc)) = (rejected, accepted) else { continue };
        obs.nt();
        obs.label_if(k > 128, "more than 128 consecutive rejected words");
        let mut script = Vec::with_capacity((k + 1) * nb);
        for _ in 0..k {
            script.extend_from_slice(&rej.0);
        }
        script.extend_from_slice(&acc.0);
        let mut rng = ScriptRng::new(&script);
        let r = call(api, lo, hi, &mut rng);
        ck!(format!("{:?}: {} copies of a rejected word are all rejected (words consumed)", api, k), rng.consumed() / nb, k + 1);
        vlib::ck_true!(format!("{:?}: result in range", api), r.z() >= zlo && r.z() <= zhi);
        let (_, single) = accepts(api, lo, hi, &acc.0);
        ck!(format!("{:?}: the value depends only on the accepted word", api), st(&r), st(&single));
    }
    Ok(())
}

/// ranges with a large rejection zone (size just above a power of two) and candidate words
fn rejection_cases(sh: Shape) -> BoxedStrategy<(Pat, Pat, Vec<Pat>, u32)> {
    let w = sh.bits() as u64;
    let nb = sh.bytes;
    (gen::pattern(sh), 0u64..3, 1u64..40, proptest::collection::vec(prop_oneof![gen::uniform(sh), gen::pattern(sh)], 12), prop_oneof![Just(1u32), Just(2), Just(127), Just(128), Just(129), Just(130), Just(200), Just(257), 1u32..300])
        .prop_map(move |(lo, k, extra, words, reps)| {
            // size = 2^(W-1-k) + extra: about half of the words of the top binade are rejected
            let size = Z::pow2(w - 1 - k.min(w - 2)).add(&Z::from_u64(extra));
            let zlo = Z::from_le_unsigned(&lo.0).mod_2k(w - 2);
            let zhi = zlo.add(&size).add_i(-1);
            (Pat(zlo.to_le_wrapped(nb)), Pat(zhi.to_le_wrapped(nb)), words, reps)
        })
        .boxed()
}

/// Unbiasedness for SMALL ranges on wide types, where the candidate words of one output value
/// cannot be enumerated. Uses the word -> value correspondence lo + floor(v*size/2^W) (checked
/// separately for every accepted word) and the assumption that, within the candidate interval of
/// one output value, the accepted words form a prefix or a suffix; the assumption is spot-checked
/// inside and outside the located interval and the case is skipped (never reported) if it does not hold. The number
/// of accepted candidates, found by bisection, must be the same for every sampled output value.
fn eval_unbiased_bisect<T: Int + SampleUniform>(c: &(Pat, Pat, Vec<Pat>), obs: &mut Obs) -> Result<(), String> {
    let (p, q): (T, T) = (ld(&c.0), ld(&c.1));
    let (lo, hi, zlo, zhi) = if p.z() <= q.z() { (p, q, p.z(), q.z()) } else { (q, p, q.z(), p.z()) };
    let w = T::W as u64;
    let nb = (T::W / 8) as usize;
    let size = zhi.sub(&zlo).add_i(1);
    if size == Z::pow2(w) || size <= Z::one() {
        return Ok(());
    }
    let two_w = Z::pow2(w);
    let mut hs = vec![Z::zero(), Z::one().divrem_trunc(&size).1, size.add_i(-1), size.shr_floor(1)];
    for x in &c.2 {
        hs.push(Z::from_le_unsigned(&x.0).divrem_trunc(&size).1);
    }
    for api in [Api::UniformIncl, Api::SingleIncl] {
        let mut reference: Option<(Z, Z)> = None;
        for (hi_idx, h) in hs.iter().enumerate() {
            let first = h.mul(&two_w).divrem_ceil(&size).0;
            let last = h.add_i(1).mul(&two_w).divrem_ceil(&size).0;
            let cnt = last.sub(&first);
            let acc = |k: &Z| -> Result<bool, String> {
                let v = first.add(k);
                let (a, r) = accepts(api, lo, hi, &v.to_le_wrapped(nb));
                if a && r.z() != zlo.add(h) {
                    return Err(format!("{:?}: accepted word {:?} gives {:?}, expected lo + {:?}", api, v, r.z(), h));
                }
                Ok(a)
            };
            // The accepted candidates are assumed to be a prefix (bnum's `lo <= zone`) or a suffix
            // (Lemire's `lo >= threshold`) of the candidate interval; `start..start+count` below.
            let (a_first, a_last) = (acc(&Z::zero())?, acc(&cnt.add_i(-1))?);
            let (start, count) = match (a_first, a_last) {
                (true, true) => (Z::zero(), cnt.clone()),
                (false, false) => (Z::zero(), Z::zero()),
                (true, false) => {
                    let (mut a, mut b) = (Z::zero(), cnt.add_i(-1)); // acc(a) true, acc(b) false
                    while b.sub(&a) > Z::one() {
                        let mid = a.add(&b).shr_floor(1);
                        if acc(&mid)? { a = mid } else { b = mid }
                    }
                    (Z::zero(), b)
                }
                (false, true) => {
                    let (mut a, mut b) = (Z::zero(), cnt.add_i(-1)); // acc(a) false, acc(b) true
                    while b.sub(&a) > Z::one() {
                        let mid = a.add(&b).shr_floor(1);
                        if acc(&mid)? { b = mid } else { a = mid }
                    }
                    (b.clone(), cnt.sub(&b))
                }
            };
            obs.label_if(a_last && !a_first, "accepted candidates form a suffix of the interval");
            // spot-check the interval assumption inside and outside start..start+count
            let mut prefix_ok = true;
            for (j, x) in c.2.iter().enumerate() {
                let rnd = Z::from_le_unsigned(&x.0).add(&Z::from_u64(j as u64 * 7919 + hi_idx as u64));
                if !count.is_zero() {
                    let inside = start.add(&rnd.divrem_trunc(&count).1);
                    prefix_ok &= acc(&inside)?;
                }
                let outside_n = cnt.sub(&count);
                if !outside_n.is_zero() {
                    // the complement of start..start+count inside 0..cnt, mapped monotonically
                    let o = rnd.divrem_trunc(&outside_n).1;
                    let outside = if o < start { o } else { o.add(&count) };
                    prefix_ok &= !acc(&outside)?;
                }
            }
            if !prefix_ok {
                obs.label("accepted words are neither a prefix nor a suffix of the candidate interval: count not decidable, skipped");
                return Ok(());
            }
            vlib::runner::count_cmp(1);
            if count.is_zero() {
                return Err(format!("{:?} on [{:?}, {:?}]: the value lo+{:?} has no accepted preimage", api, zlo, zhi, h));
            }
            match &reference {
                None => reference = Some((h.clone(), count)),
                Some((h0, n0)) if *n0 != count => {
                    return Err(format!("{:?} on [{:?}, {:?}] (size {:?}): lo+{:?} has {:?} accepted preimages but lo+{:?} has {:?}", api, zlo, zhi, size, h0, n0, h, count));
                }
                _ => {}
            }
        }
    }
    obs.nt_if(size.trailing_zeros().map_or(true, |tz| tz + 1 != size.bit_len()));
    obs.label("small range on a wide type: preimage counts of 4+ output values located by bisection");
    Ok(())
}

fn small_ranges(sh: Shape) -> BoxedStrategy<(Pat, Pat, Vec<Pat>)> {
    let w = sh.bits() as u64;
    let nb = sh.bytes;
    let sizes = prop_oneof![
        4 => (2u64..5000).prop_map(Z::from_u64),
        2 => any::<u64>().prop_map(|x| Z::from_u64(x | 3)),
        2 => (1u64..w - 7, -3i64..=3).prop_map(|(k, e)| { let z = Z::pow2(k).add_i(e); if z < Z::from_i64(2) { Z::from_i64(3) } else { z } }),
        2 => gen::pattern(sh).prop_map(move |p| { let z = Z::from_le_unsigned(&p.0).mod_2k(w - 8); if z < Z::from_i64(2) { Z::from_i64(7) } else { z } }),
    ];
    (gen::pattern(sh), sizes, proptest::collection::vec(gen::uniform(sh), 3), any::<bool>())
        .prop_map(move |(lo, size, extra, signed_span)| {
            let zlo = if signed_span { Z::pow2(w - 1).sub(&size.shr_floor(1)) } else { Z::from_le_unsigned(&lo.0).mod_2k(w - 1) };
            let zhi = zlo.add(&size).add_i(-1);
            (Pat(zlo.to_le_wrapped(nb)), Pat(zhi.to_le_wrapped(nb)), extra)
        })
        .boxed()
}

fn wide_ranges(sh: Shape) -> BoxedStrategy<(Pat, Pat, Pat, Pat)> {
    let w = sh.bits() as u64;
    let nb = sh.bytes;
    (gen::pattern(sh), gen::pattern(sh), 0u64..6, gen::pattern(sh), gen::pattern(sh), any::<bool>())
        .prop_map(move |(lo, sz, k, h1, h2, signed_span)| {
            // size in [2^(W-1-k), 2^(W-k)) so that 2^W / size <= 64
            let size = Z::from_le_unsigned(&sz.0).mod_2k(w - 1 - k).add(&Z::pow2(w - 1 - k));
            let zlo = if signed_span { Z::pow2(w - 1).sub(&size.shr_floor(1)) } else { Z::from_le_unsigned(&lo.0).mod_2k(w).divrem_trunc(&Z::pow2(w).sub(&size).add_i(1)).1 };
            let zhi = zlo.add(&size).add_i(-1);
            (Pat(zlo.to_le_wrapped(nb)), Pat(zhi.to_le_wrapped(nb)), h1, h2)
        })
        .boxed()
}

/// ranges of size 2^(W-1-k) .. 2^(W-k) for k up to 15 (types of at most 32 bits)
fn medium_ranges(sh: Shape) -> BoxedStrategy<(Pat, Pat, Pat, Pat)> {
    let w = sh.bits() as u64;
    let nb = sh.bytes;
    (gen::pattern(sh), gen::pattern(sh), 6u64..15, gen::pattern(sh), gen::pattern(sh), any::<bool>())
        .prop_map(move |(lo, sz, k, h1, h2, signed_span)| {
            let k = k.min(w - 2);
            let size = Z::from_le_unsigned(&sz.0).mod_2k(w - 1 - k).add(&Z::pow2(w - 1 - k));
            let zlo = if signed_span { Z::pow2(w - 1).sub(&size.shr_floor(1)) } else { Z::from_le_unsigned(&lo.0).mod_2k(w).divrem_trunc(&Z::pow2(w).sub(&size).add_i(1)).1 };
            let zhi = zlo.add(&size).add_i(-1);
            (Pat(zlo.to_le_wrapped(nb)), Pat(zhi.to_le_wrapped(nb)), h1, h2)
        })
        .boxed()
}

/// thorough tier only: the complete 2^24 word space of a 24-bit type for a few ranges
fn eval_unbiased_all_words24<T: Int + SampleUniform>(c: &(Pat, Pat), obs: &mut Obs) -> Result<(), String> {
    let (p, q): (T, T) = (ld(&c.0), ld(&c.1));
    let (lo, hi, zlo, zhi) = if p.z() <= q.z() { (p, q, p.z(), q.z()) } else { (q, p, q.z(), p.z()) };
    assert!(T::W == 24);
    let size = zhi.sub(&zlo).add_i(1).to_u64().unwrap() as usize;
    if size > 1 << 12 {
        return Ok(());
    }
    obs.nt();
    for api in [Api::UniformIncl, Api::SingleIncl] {
        let mut counts = vec![0u32; size];
        for v in 0..(1u32 << 24) {
            let script = v.to_le_bytes();
            let mut rng = ScriptRng::new(&script[..3]);
            let r = call(api, lo, hi, &mut rng);
            if rng.consumed() == 3 {
                let off = r.z().sub(&zlo).to_u64().filter(|&i| (i as usize) < size);
                match off {
                    Some(i) => counts[i as usize] += 1,
                    None => return Err(format!("{:?}: word {v} gives {:?}, outside [{:?}, {:?}]", api, r.z(), zlo, zhi)),
                }
            }
        }
        vlib::runner::count_cmp(1);
        let first = counts[0];
        if first == 0 || counts.iter().any(|&n| n != first) {
            return Err(format!("{:?} on [{:?}, {:?}]: preimage counts over all 2^24 words range from {} to {}", api, zlo, zhi, counts.iter().min().unwrap(), counts.iter().max().unwrap()));
        }
    }
    Ok(())
}

fn jobs_for<U, I>(jobs: &mut Vec<Job>)
where
    U: UInt + Int<I = I> + SampleUniform,
    I: SInt + Int<U = U> + SampleUniform,
    Standard: Distribution<U> + Distribution<I>,
    Slice<U>: Fill,
    Slice<I>: Fill,
{
    let sh: Shape = U::shape();
    let big = U::W > 1100;
    let q = move |n: u32| if big { (n / 5).max(20) } else { n };
    jobs.push(Job::new(job_name::<U>("standard_fill"), move |ctx| {
        let scripts = move || (prop_oneof![
            3 => proptest::collection::vec(any::<u8>(), 0..(6 * sh.bytes + 2)),
            2 => (gen::pattern(sh), gen::pattern(sh), gen::pattern(sh)).prop_map(|(a, b, c)| { let mut v = a.0; v.extend(b.0); v.extend(c.0); v }),
            1 => gen::boundary(sh).prop_map(|a| a.0),
        ], any::<u8>()).prop_map(|(s, k)| (Bytes(s), k));
        ctx.run("u", ctx.budget(q(QUICK), FACTOR), scripts(), eval_standard_fill::<U>);
        ctx.run("i", ctx.budget(q(QUICK), FACTOR), scripts(), eval_standard_fill::<I>);
    }));
    jobs.push(Job::new(job_name::<U>("range_membership_mapping"), move |ctx| {
        ctx.run("u", ctx.budget(q(QUICK), FACTOR), range_cases(sh), eval_range::<U>);
        ctx.run("i", ctx.budget(q(QUICK), FACTOR), range_cases(sh), eval_range::<I>);
    }));
    if U::W <= 1100 {
        jobs.push(Job::new(job_name::<U>("stateless_rejection"), move |ctx| {
            ctx.run("u", ctx.budget(q(QUICK / 6), FACTOR), rejection_cases(sh), eval_stateless_rejection::<U>);
            ctx.run("i", ctx.budget(q(QUICK / 6), FACTOR), rejection_cases(sh), eval_stateless_rejection::<I>);
        }));
    }
    if U::W > 32 && U::W <= 1100 {
        jobs.push(Job::new(job_name::<U>("unbiased/bisect"), move |ctx| {
            ctx.run("u", ctx.budget(q(QUICK / 20), FACTOR), small_ranges(sh), eval_unbiased_bisect::<U>);
            ctx.run("i", ctx.budget(q(QUICK / 20), FACTOR), small_ranges(sh), eval_unbiased_bisect::<I>);
        }));
    }
    if U::W > 16 && U::W <= 32 {
        jobs.push(Job::new(job_name::<U>("unbiased/medium"), move |ctx| {
            ctx.run("u", ctx.budget(12, 10), medium_ranges(sh), eval_unbiased_wide::<U>);
            ctx.run("i", ctx.budget(12, 10), medium_ranges(sh), eval_unbiased_wide::<I>);
        }));
    }
    if U::W == 24 {
        jobs.push(Job::new(job_name::<U>("unbiased/exhaustive24"), move |ctx| {
            if ctx.tier() == vlib::Tier::Thorough {
                let small = || (gen::pattern(sh), prop_oneof![Just(3u64), Just(7), Just(10), Just(100), Just(1000), 2u64..4096]).prop_map(move |(lo, size)| {
                    let zlo = Z::from_le_unsigned(&lo.0).mod_2k(23);
                    (Pat(zlo.to_le_wrapped(sh.bytes)), Pat(zlo.add(&Z::from_u64(size)).add_i(-1).to_le_wrapped(sh.bytes)))
                });
                ctx.run("u", 3, small(), eval_unbiased_all_words24::<U>);
                ctx.run("i", 3, small(), eval_unbiased_all_words24::<I>);
            }
        }));
    }
    if U::W > 16 && U::W <= 1100 {
        jobs.push(Job::new(job_name::<U>("unbiased/wide"), move |ctx| {
            ctx.run("u", ctx.budget(q(QUICK / 10), FACTOR), wide_ranges(sh), eval_unbiased_wide::<U>);
            ctx.run("i", ctx.budget(q(QUICK / 10), FACTOR), wide_ranges(sh), eval_unbiased_wide::<I>);
        }));
    }
}

fn exhaustive(jobs: &mut Vec<Job>) {
    type U8 = bnum::BUintD8<1>;
    type I8 = bnum::BIntD8<1>;
    // 8 bits: every one of the 32 896 ranges x all 256 words x 2 samplers, split into 16 jobs by low bound
    for part in 0..16u16 {
        jobs.push(Job::new(format!("unbiased/exhaustive8/{:02}@D8x1", part), move |ctx| {
            let ranges = move || (part * 16..part * 16 + 16).flat_map(|lo| (lo..256).map(move |hi| (Pat(vec![lo as u8]), Pat(vec![hi as u8]))));
            ctx.enumerate("u", "all ranges with this low bound slice x all 256 words (BUintD8<1>)", ranges(), eval_unbiased_all_words::<U8>);
            // signed: the same patterns shifted so that the order is the signed order
            let sranges = move || (part * 16..part * 16 + 16).flat_map(|lo| (lo..256).map(move |hi| (Pat(vec![(lo as u8) ^ 0x80]), Pat(vec![(hi as u8) ^ 0x80]))));
            ctx.enumerate("i", "all ranges with this low bound slice x all 256 words (BIntD8<1>)", sranges(), eval_unbiased_all_words::<I8>);
        }));
    }
    // 16 bits: all 65 536 words for a set of ranges (special sizes + generated)
    macro_rules! r16 {
        ($name:literal, $T:ty) => {
            jobs.push(Job::new(concat!("unbiased/exhaustive16@", $name), |ctx| {
                let sh = <$T as Int>::shape();
                let special: Vec<(u16, u16)> = vec![(0, 0), (0, 1), (0, 2), (5, 7), (0, 254), (0, 255), (0, 256), (0, 257), (1, 32768), (0, 32767), (0, 32768), (0, 32769), (0, 65534), (1, 65535), (100, 40000), (65535, 65535), (0x7fff, 0x8000), (0x00ff, 0x0100), (3, 49154), (0, 43690)];
                let signed = <$T as Int>::SIGNED;
                let fix = move |v: u16| if signed { v ^ 0x8000 } else { v };
                ctx.enumerate("special", "20 special ranges x all 65 536 words", special.into_iter().map(move |(a, b)| (Pat(fix(a).to_le_bytes().to_vec()), Pat(fix(b).to_le_bytes().to_vec()))), eval_unbiased_all_words::<$T>);
                ctx.run("generated", ctx.budget(12, 25), gen::pattern_pair(sh), eval_unbiased_all_words::<$T>);
            }));
        };
    }
    r16!("U:D8x2", bnum::BUintD8<2>);
    r16!("I:D8x2", bnum::BIntD8<2>);
    r16!("U:D16x1", bnum::BUintD16<1>);
    r16!("I:D16x1", bnum::BIntD16<1>);
}

fn main() {
    let mut jobs = Vec::new();
    exhaustive(&mut jobs);
    macro_rules! add {
        ($U:ty, $I:ty) => {
            jobs_for::<$U, $I>(&mut jobs);
        };
    }
    for_all_cfgs!(add);
    runner::main(
        Property {
            id: "C20",
            rule: "The RNG is a ScriptRng: its output stream is a byte script chosen by the generator followed by a fixed pseudo-random tail (a pure function of the position, so that rejection loops end whichever words a sampler accepts; a sampler that has not returned after 128 KiB of tail is reported as stuck), and it records how many bytes were drawn, so words are chosen, not left to chance. (1) Standard / Fill: for any script, gen::<T>() has the successive BYTES-sized little-endian chunks of the script as its pattern (hence every value is reachable), a slice fill of k elements consumes k*BYTES bytes and equals k successive gen() calls, Fill::try_fill == try_fill_slice. (2) Membership and exact mapping for gen_range(lo..hi), gen_range(lo..=hi), Uniform::new/new_inclusive + sample, sample_single(_inclusive): bounds from structured pairs sorted on the reference side and ranges of size 1, 2, 2^k, 2^k+-1, 2^W-1 and the full range, signed ranges spanning zero; the result lies in the range and equals lo + floor(v*range/2^W) for the last (accepted) word v. (3) Unbiasedness, exhaustive at 8 bits (every one of the 32 896 ranges x all 256 words x 2 samplers, U and I) and over all 65 536 words for special + generated ranges of the four 16-bit types: among ACCEPTED words (those after which no further word is drawn) every value of the range has the same number (>= 1) of preimages. (4) Unbiasedness above 16 bits (the leading_zeros zone branch): for ranges of size >= 2^(W-6) (any width up to 1088 bits) and of size >= 2^(W-16) on the 24- and 32-bit types all (<= 65 resp. <= 65 537) candidate words of six output values (0, 1, range-1, range/2, two generated) are enumerated and must have equal, non-zero accepted counts; in the thorough tier the complete 2^24 word space of the 24-bit types is enumerated for a few small ranges. (5) Small ranges on wide types (33..1088 bits): the number of accepted candidate words of 4-7 output values is located by bisection (assuming the accepted candidates of one output value form a prefix or a suffix of its candidate interval - spot-checked inside and outside, the case is skipped if it does not hold) and must be equal. (6) Acceptance is a property of the word: K in {1, 2, 127..130, 200, 257, uniform < 300} copies of a word that is rejected when it comes first, followed by an accepted word, must consume exactly K+1 words. NON-TRIVIAL: range size not a power of two, or full range / size 1; scripts of at least one word. distinct = distinct (profile, job, inputs) by 64-bit hash.",
            assumptions: &[
                "a word is 'accepted' iff the sampler draws no further word after it (observed through the byte counter of the scripted RNG)",
                "the word -> value correspondence lo + floor(v*range/2^W) (rand 0.8's widening-multiply scheme, which bnum's own rand tests pin by comparing with the primitives under the same seed) is part of the oracle; a different unbiased scheme would require revisiting checks (2), (4) and (5)",
                "for ranges smaller than 2^(W-6) on types wider than 32 bits preimage counts are located by bisection under a spot-checked prefix assumption, not enumerated; above 1088 bits only membership and the mapping are checked",
                "rand 0.8 API (the version bnum's rand feature targets)",
            ],
        },
        jobs,
        &[("refint", vlib::refint::self_test), ("script_rng", vlib::script_rng::self_test)],
    );
}
