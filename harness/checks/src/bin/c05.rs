//! C05 — shifts move bits by exactly s places; rotations permute the BITS-bit pattern (DESIGN.md §4 C05)

use checks::api::{Int, SInt, UInt};
use checks::common::*;
use checks::for_all_cfgs;
use proptest::prelude::*;
use vlib::gen::{self, Shape};
use vlib::runner::{self, Job, Obs, Outcome, Property};
use vlib::{ck, Pat, Z};

const QUICK: u32 = 1500;
const FACTOR: u32 = 20;

fn rotl_bits(p: &[u8], n: u64) -> Vec<u8> {
    let w = p.len() * 8;
    let n = (n % w as u64) as usize;
    let mut out = vec![0u8; p.len()];
    for i in 0..w {
        if (p[i / 8] >> (i % 8)) & 1 == 1 {
            let j = (i + n) % w;
            out[j / 8] |= 1 << (j % 8);
        }
    }
    out
}

fn shifts<T: Int>(c: &(Pat, u32), obs: &mut Obs) -> Result<(), String> {
    let x: T = ld(&c.0);
    let s = c.1;
    let w = T::W;
    let z = x.z();
    let d = T::DIGIT_BITS;
    let neg = z.is_neg();
    obs.nt_if((s > 0 && s < w && s / d >= 1 && s % d != 0) || s >= w || (neg && s > 0));
    obs.label_if(s < w && s / d >= 1 && s % d != 0, "digit offset >= 1 and bit offset != 0");
    obs.label_if(s < w && s % d == 0 && s > 0, "whole-digit shift");
    obs.label_if(s >= w, "amount >= BITS");
    obs.label_if(s == w, "amount == BITS");
    obs.label_if(neg && s > 0, "negative value (sign fill on shr)");
    obs.label_if(!w.is_power_of_two(), "width not a power of two");

    if s < w {
        let l = pz::<T>(&z.shl(s as u64));
        let r = pz::<T>(&z.shr_floor(s as u64));
        ck!("checked_shl", x.checked_shl(s).map(|v| st(&v)), Some(l.clone()));
        ck!("checked_shr", x.checked_shr(s).map(|v| st(&v)), Some(r.clone()));
        ck!("overflowing_shl", { let (v, f) = x.overflowing_shl(s); (st(&v), f) }, (l.clone(), false));
        ck!("overflowing_shr", { let (v, f) = x.overflowing_shr(s); (st(&v), f) }, (r.clone(), false));
        ck!("wrapping_shl", st(&x.wrapping_shl(s)), l.clone());
        ck!("wrapping_shr", st(&x.wrapping_shr(s)), r.clone());
        ck!("strict_shl", oc(|| x.strict_shl(s)), Outcome::Returned(l.clone()));
        ck!("strict_shr", oc(|| x.strict_shr(s)), Outcome::Returned(r.clone()));
        ck!("unchecked_shl", st(&unsafe { x.unchecked_shl(s) }), l.clone());
        ck!("unchecked_shr", st(&unsafe { x.unchecked_shr(s) }), r.clone());
        ck!("operator <<", oc(|| x << s), Outcome::Returned(l.clone()));
        ck!("operator >>", oc(|| x >> s), Outcome::Returned(r.clone()));
        ck!("shl (const twin)", oc(|| x.c_shl(s)), Outcome::Returned(l.clone()));
        ck!("shr (const twin)", oc(|| x.c_shr(s)), Outcome::Returned(r.clone()));
        ck!("unbounded_shl", st(&x.unbounded_shl(s)), l.clone());
        ck!("unbounded_shr", st(&x.unbounded_shr(s)), r.clone());
        obs.note(|| format!("x={:?} s={} shl={:?} shr={:?}", z, s, l, r));
    } else {
        ck!("checked_shl (s >= BITS)", x.checked_shl(s).map(|v| st(&v)), None);
        ck!("checked_shr (s >= BITS)", x.checked_shr(s).map(|v| st(&v)), None);
        let (vl, fl) = x.overflowing_shl(s);
        let (vr, fr) = x.overflowing_shr(s);
        ck!("overflowing_shl flag (s >= BITS)", fl, true);
        ck!("overflowing_shr flag (s >= BITS)", fr, true);
        ck!("wrapping_shl == overflowing_shl.0", st(&x.wrapping_shl(s)), st(&vl));
        ck!("wrapping_shr == overflowing_shr.0", st(&x.wrapping_shr(s)), st(&vr));
        if w.is_power_of_two() {
            let m = (s % w) as u64;
            ck!("overflowing_shl value (s mod BITS)", st(&vl), pz::<T>(&z.shl(m)));
            ck!("overflowing_shr value (s mod BITS)", st(&vr), pz::<T>(&z.shr_floor(m)));
        }
        ck!("strict_shl panics (s >= BITS)", oc(|| x.strict_shl(s)).is_panic(), true);
        ck!("strict_shr panics (s >= BITS)", oc(|| x.strict_shr(s)).is_panic(), true);
        ck!("unbounded_shl (s >= BITS)", st(&x.unbounded_shl(s)), pz::<T>(&Z::zero()));
        ck!("unbounded_shr (s >= BITS)", st(&x.unbounded_shr(s)), pz::<T>(&if neg { Z::from_i64(-1) } else { Z::zero() }));
        obs.note(|| format!("x={:?} s={} (>= BITS) overflowing_shl={:?}", z, s, (st(&vl), fl)));
    }
    Ok(())
}

fn rotate<T: Int>(c: &(Pat, u32), obs: &mut Obs) -> Result<(), String> {
    let x: T = ld(&c.0);
    let n = c.1;
    let w = T::W;
    let exp_l = Pat(rotl_bits(&c.0 .0, n as u64));
    let exp_r = Pat(rotl_bits(&c.0 .0, (w - n % w) as u64));
    let l = x.rotate_left(n);
    let r = x.rotate_right(n);
    obs.nt_if(n % w != 0 && (!w.is_power_of_two() || n >= w || n % T::DIGIT_BITS != 0));
    obs.label_if(!w.is_power_of_two() && n % w != 0, "rotation on a width that is not a power of two");
    obs.label_if(n >= w, "rotation amount >= BITS");
    obs.label_if(n % w != 0 && n % T::DIGIT_BITS == 0, "whole-digit rotation");
    ck!("rotate_left", st(&l), exp_l.clone());
    ck!("rotate_right", st(&r), exp_r.clone());
    ck!("rotate_right(rotate_left(x, n), n) = x", st(&l.rotate_right(n)), c.0.clone());
    ck!("rotate_left(rotate_right(x, n), n) = x", st(&r.rotate_left(n)), c.0.clone());
    ck!("rotate_left(x, n) = rotate_right(x, BITS - n mod BITS)", st(&x.rotate_right(w - n % w)), exp_l.clone());
    ck!("popcount preserved", l.count_ones(), x.count_ones());
    obs.note(|| format!("x={:?} n={} rotl={:?}", c.0, n, exp_l));
    Ok(())
}

fn jobs_for<U, I>(jobs: &mut Vec<Job>)
where
    U: UInt + Int<I = I>,
    I: SInt + Int<U = U>,
{
    let sh: Shape = U::shape();
    jobs.push(Job::new(job_name::<U>("u/shl_shr"), move |ctx| {
        ctx.run("shifts", ctx.budget(QUICK, FACTOR), (gen::pattern(sh), gen::amount(sh)), shifts::<U>);
    }));
    jobs.push(Job::new(job_name::<U>("i/shl_shr"), move |ctx| {
        // weight on negative values with a partial top digit
        let neg_heavy = (gen::pattern(sh), any::<bool>()).prop_map(move |(mut p, force)| {
            if force {
                let last = p.0.len() - 1;
                p.0[last] |= 0x80;
            }
            p
        });
        ctx.run("shifts", ctx.budget(QUICK, FACTOR), (neg_heavy, gen::amount(sh)), shifts::<I>);
    }));
    jobs.push(Job::new(job_name::<U>("sweep"), move |ctx| {
        let full = ctx.tier() == vlib::Tier::Thorough;
        // EVERY amount 0..=W+1 (and a few beyond) on four fixed patterns
        let w = sh.bits();
        let pats = move || {
            let mut alt = vec![0xa5u8; sh.bytes];
            alt[0] = 0x01;
            let mut top = vec![0u8; sh.bytes];
            top[sh.bytes - 1] = 0x80;
            let mut minp1 = top.clone();
            minp1[0] = 1;
            vec![Pat(vec![0xffu8; sh.bytes]), Pat(alt), Pat(top), Pat(minp1)]
        };
        let amounts = move || -> Vec<u32> { let mut v = positions(sh, full); v.extend([w, w + 1, 2 * w - 1, 2 * w, u32::MAX]); v };
        let all = move || pats().into_iter().flat_map(move |p| amounts().into_iter().map(move |s| (p.clone(), s)));
        ctx.enumerate("shifts_u", "4 patterns x every amount 0..=W+1", all(), shifts::<U>);
        ctx.enumerate("shifts_i", "4 patterns x every amount 0..=W+1", all(), shifts::<I>);
        ctx.enumerate("rotate_u", "4 patterns x every amount 0..=W+1", all(), rotate::<U>);
    }));
    jobs.push(Job::new(job_name::<U>("rotate"), move |ctx| {
        ctx.run("rotate_u", ctx.budget(QUICK, FACTOR), (gen::pattern(sh), gen::amount(sh)), rotate::<U>);
        ctx.run("rotate_i", ctx.budget(QUICK / 2, FACTOR), (gen::pattern(sh), gen::amount(sh)), rotate::<I>);
    }));
}

fn exhaustive(jobs: &mut Vec<Job>) {
    type U8 = bnum::BUintD8<1>;
    type I8 = bnum::BIntD8<1>;
    type U24 = bnum::BUintD8<3>;
    jobs.push(Job::new("small/exhaustive8@D8x1", |ctx| {
        let amounts = || (0u32..=40).chain([63, 64, 65, 255, 256, 257, u32::MAX - 1, u32::MAX].into_iter());
        let all = || (0..=255u8).flat_map(move |a| amounts().map(move |s| (Pat(vec![a]), s)));
        ctx.enumerate("u_shifts", "all values x 49 amounts of BUintD8<1>", all(), shifts::<U8>);
        ctx.enumerate("i_shifts", "all values x 49 amounts of BIntD8<1>", all(), shifts::<I8>);
        ctx.enumerate("u_rotate", "all values x 49 amounts of BUintD8<1>", all(), rotate::<U8>);
        ctx.enumerate("i_rotate", "all values x 49 amounts of BIntD8<1>", all(), rotate::<I8>);
    }));
    jobs.push(Job::new("small/rotate_all_amounts@D8x3", |ctx| {
        // every rotation amount 0..=3*24 on a few fixed 24-bit patterns (non-power-of-two width)
        let pats = [[0x01u8, 0x02, 0x03], [0x80, 0x00, 0x01], [0xff, 0x00, 0x55], [0x00, 0x00, 0x80]];
        let all = pats.into_iter().flat_map(|p| (0u32..=72).map(move |n| (Pat(p.to_vec()), n)));
        ctx.enumerate("u_rotate24", "4 patterns x amounts 0..=72 of BUintD8<3>", all, rotate::<U24>);
    }));
}

fn main() {
    let mut jobs = Vec::new();
    macro_rules! add {
        ($U:ty, $I:ty) => {
            jobs_for::<$U, $I>(&mut jobs);
            checks::siblings::topic_jobs::<$U, $I>(&mut jobs, checks::siblings::Group::Shift, 150, FACTOR);
        };
    }
    for_all_cfgs!(add);
    exhaustive(&mut jobs);
    runner::main(
        Property {
            id: "C05",
            rule: "Values are structured W-bit patterns (signed: half of the cases forced negative); amounts come from {0, 1, d-1, d, d+1, k*d, k*d+-1, W-1, W, W+1, 2W-1, 2W, u32::MAX, 2^k+W-1, uniform < W, uniform < 2W, uniform u32} with d = digit bits. Oracle: shl = (x*2^s) mod 2^W and shr = floor(x/2^s) in the reference integer, rotation = explicit bit permutation of the pattern; checked/overflowing/wrapping/strict/unchecked/unbounded forms, the << >> operators and const twins (in-range amounts), rotate_left/right and their inverse laws. The value of wrapping/overflowing shifts for s >= BITS is asserted only when BITS is a power of two (as the property states). NON-TRIVIAL: 0 < s < W with digit offset >= 1 and bit offset != 0, or s >= W, or a negative value shifted by s > 0; rotation: n mod W != 0 and (W not a power of two, or n >= W, or n not a multiple of the digit size). distinct = distinct (profile, job, inputs) by 64-bit hash. 8-bit configuration enumerated over all values x 49 amounts; BUintD8<3> over all rotation amounts 0..=72. A deterministic SWEEP additionally enumerates, per configuration, position-specific inputs (2^k - 1, 2^k, 2^k + 1 with their negations and complements; carry / borrow chains and power-of-two products ending at every bit position k; every shift / rotate amount; every bit index; every float exponent) - all positions on types up to 1088 bits, a sparse selection of a few hundred positions on wider types in the quick tier, all positions in the thorough tier. SIBLINGS job (per configuration): the entry points of this property's own operations that other properties anchor - the six operand forms of the std operators (a op b, &a op b, a op &b, &a op &b, a op= b, a op= &b; for shifts every primitive and bnum-typed amount type), Sum/Product, and the num_traits forwarders - are compared with the inherent method / const twin (same value, same panic outcome), so that a regression confined to one rarely used entry point is reported by the check of the operation it belongs to as well as by C17/C18.",
            assumptions: &[
                "digits()/from_digits()/to_bits()/from_bits() are the trusted observation channel",
                "unchecked_shl/shr are only called with s < BITS (their safety contract)",
            ],
        },
        jobs,
        &[("refint", vlib::refint::self_test)],
    );
}
