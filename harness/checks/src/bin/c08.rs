//! C08 — powers and integer logarithms are exact (DESIGN.md §4 C08)

use checks::api::{width_scale, Int, SInt, UInt};
use checks::common::*;
use checks::for_all_cfgs;
use proptest::prelude::*;
use vlib::gen::{self, Shape};
use vlib::runner::{self, outcome, Job, Obs, Outcome, Property};
use vlib::{ck, Pat, Z};

const QUICK: u32 = 800;
const FACTOR: u32 = 20;

fn zpat(z: &Z, sh: Shape) -> Pat {
    Pat(z.to_le_wrapped(sh.bytes))
}

/// approximate log2 of |z| (z != 0)
fn log2_approx(z: &Z) -> f64 {
    let bl = z.bit_len();
    let top = z.abs().shr_floor(bl.saturating_sub(53));
    let t = top.to_u64().unwrap_or(1) as f64;
    t.log2() + bl.saturating_sub(53) as f64
}

fn pow_cases(sh: Shape, signed: bool) -> BoxedStrategy<(Pat, u32)> {
    let w = sh.bits();
    let maxbits = if signed { w - 1 } else { w } as u64;
    let base = prop_oneof![
        3 => prop_oneof![Just(0i64), Just(1), Just(-1), Just(2), Just(-2), Just(3), Just(-3), Just(10), Just(-10), -20i64..=20, 0i64..1000]
            .prop_map(move |x| Z::from_i64(x)),
        3 => (1u32..w, -1i64..=1, any::<bool>()).prop_map(move |(j, e, neg)| {
            let z = Z::pow2(j as u64).add_i(e);
            if neg { z.neg() } else { z }
        }),
        2 => (0u32..64, any::<u64>(), any::<bool>()).prop_map(|(sh_, x, neg)| {
            let z = Z::from_u64(x >> sh_);
            if neg { z.neg() } else { z }
        }),
        2 => gen::pattern(sh).prop_map(move |p| Z::from_le(&p.0, signed)),
    ];
    // (base, exponent) near the overflow threshold
    let near = (base.clone(), -2i64..=2).prop_map(move |(a, de)| {
        let e = if a.abs() <= Z::one() { 3 } else { ((maxbits as f64 / log2_approx(&a)).floor() as i64 + de).max(0) };
        (a, e.min(u32::MAX as i64) as u32)
    });
    // k-th roots of the bound, with e = k + {-1, 0, 1}
    let kmin = (w / 48).max(2);
    let roots = (kmin..=w, -1i64..=1, -1i64..=1, any::<bool>(), any::<bool>()).prop_map(move |(k, da, de, neg, smax)| {
        let bound = if smax { Z::pow2(maxbits).add_i(-1) } else { Z::pow2(maxbits) };
        let r = bound.nth_root(k).add_i(da);
        let r = if r.is_neg() { Z::zero() } else { r };
        (if neg { r.neg() } else { r }, (k as i64 + de).max(0) as u32)
    });
    let exps = prop_oneof![
        4 => 0u32..6,
        2 => Just(w - 1),
        2 => Just(w),
        3 => 0u32..(2 * w),
        1 => Just(u32::MAX),
        1 => Just(u32::MAX - 1),
        1 => any::<u32>(),
        1 => (0u32..32).prop_map(|k| 1u32 << k),
        1 => (1u32..32).prop_map(|k| ((1u64 << k) - 1) as u32),
    ];
    prop_oneof![
        4 => (base, exps),
        4 => near,
        2 => roots,
    ]
    .prop_map(move |(a, e)| {
        let a = if signed { a } else { a.abs() };
        (zpat(&a, sh), e)
    })
    .boxed()
}

fn eval_pow<T: Int>(c: &(Pat, u32), obs: &mut Obs) -> Result<(), String> {
    let a: T = ld(&c.0);
    let e = c.1;
    let za = a.z();
    let w = T::W as u64;
    let exact = za.pow_capped(e, w + 1);
    let flag = match &exact {
        Some(p) => !fits::<T>(p),
        None => true,
    };
    let wrapped = za.pow_mod_2k(e, w).wrap(w, T::SIGNED);
    if let Some(p) = &exact {
        // two different reference algorithms agree (harness-side sanity)
        assert!(p.wrap(w, T::SIGNED) == wrapped, "reference pow algorithms disagree");
    }
    let wp = pz::<T>(&wrapped);
    let sat = if !flag {
        wp.clone()
    } else if za.is_neg() && e % 2 == 1 {
        pz::<T>(&zmin::<T>())
    } else {
        pz::<T>(&zmax::<T>())
    };
    let big = za.abs() >= Z::from_i64(2) && e >= 2;
    let near_bound = match &exact {
        Some(p) => big && p.bit_len() + za.bit_len() + 1 >= (if T::SIGNED { w - 1 } else { w }),
        None => big && ((e as f64) * log2_approx(&za) < (w as f64 + log2_approx(&za) + 2.0)),
    };
    obs.nt_if(near_bound);
    obs.label_if(near_bound, "|a|>=2, e>=2, a^e within a factor |a| of the bound");
    obs.label_if(flag, "overflow flag set");
    obs.label_if(flag && za.is_neg() && e % 2 == 1, "negative base, odd exponent, overflow (saturates to MIN)");
    obs.label_if(e == 0, "exponent 0");
    obs.label_if(za.is_zero() && e == 0, "0^0");
    obs.label_if(exact.as_ref().map_or(false, |p| *p == zmin::<T>() && T::SIGNED), "result exactly MIN");
    obs.label_if(e >= 1 << 16, "exponent >= 2^16");

    ck!("overflowing_pow", { let (v, f) = a.overflowing_pow(e); (st(&v), f) }, (wp.clone(), flag));
    ck!("checked_pow", a.checked_pow(e).map(|v| st(&v)), if flag { None } else { Some(wp.clone()) });
    ck!("wrapping_pow", st(&a.wrapping_pow(e)), wp.clone());
    ck!("saturating_pow", st(&a.saturating_pow(e)), sat);
    ck!("strict_pow", oc(|| a.strict_pow(e)), if flag { Outcome::Panic(String::new()) } else { Outcome::Returned(wp.clone()) });
    obs.note(|| format!("a={:?} e={} flag={} wrapped={:?}", za, e, flag, wrapped));
    Ok(())
}

/// greatest k with b^k <= x (x >= 1, b >= 2), by repeated multiplication
fn ref_ilog(x: &Z, b: &Z) -> u32 {
    let mut k = 0u32;
    let mut p = b.clone();
    while p <= *x {
        k += 1;
        p = p.mul(b);
    }
    k
}

fn ilog_cases(sh: Shape, signed: bool) -> BoxedStrategy<(Pat, Pat)> {
    let w = sh.bits();
    let maxbits = if signed { w - 1 } else { w } as u64;
    let bases = prop_oneof![
        4 => prop_oneof![Just(2i64), Just(3), Just(10), Just(16), Just(7), Just(36), Just(255), Just(256), Just(257), 2i64..100].prop_map(Z::from_i64),
        2 => (1u32..w, -1i64..=1).prop_map(|(j, e)| Z::pow2(j as u64).add_i(e)),
        1 => any::<u64>().prop_map(Z::from_u64),
        1 => gen::pattern(sh).prop_map(move |p| Z::from_le_unsigned(&p.0).mod_2k(maxbits)),
        1 => Just(Z::pow2(maxbits).add_i(-1)),
    ];
    let exact = (bases.clone(), 0u32..=w, -1i64..=1).prop_map(move |(b, k, e)| {
        let b = if b < Z::from_i64(2) { Z::from_i64(2) } else { b.mod_2k(maxbits) };
        let b = if b < Z::from_i64(2) { Z::from_i64(2) } else { b };
        // largest usable exponent
        let kmax = (maxbits / b.bit_len().max(1)) as u32;
        let k = if kmax == 0 { 0 } else { k % (kmax + 1) };
        let x = b.pow_capped(k, maxbits + 8).unwrap_or_else(Z::one).add_i(e);
        let x = if x.fits(maxbits, false) { x } else { Z::pow2(maxbits).add_i(-1) };
        (x, b)
    });
    let general = (gen::pattern(sh), bases).prop_map(move |(p, b)| (Z::from_le_unsigned(&p.0).mod_2k(maxbits), b.mod_2k(maxbits)));
    let invalid = (gen::pattern(sh), gen::pattern(sh), 0u8..6).prop_map(move |(p, q, sel)| {
        let x = Z::from_le(&p.0, signed);
        let b = Z::from_le(&q.0, signed);
        match sel {
            0 => (Z::zero(), b),
            1 => (x, Z::zero()),
            2 => (x, Z::one()),
            3 => (x.abs().neg(), b.abs()),
            4 => (x.abs(), b.abs().neg()),
            _ => (x, b),
        }
    });
    prop_oneof![5 => exact, 3 => general, 2 => invalid]
        .prop_map(move |(x, b)| (zpat(&x, sh), zpat(&b, sh)))
        .boxed()
}

fn eval_ilog<T: Int>(c: &(Pat, Pat), obs: &mut Obs) -> Result<(), String> {
    let (x, b): (T, T) = (ld(&c.0), ld(&c.1));
    let (zx, zb) = (x.z(), b.z());
    let two = Z::from_i64(2);
    let ten = Z::from_i64(10);
    let valid_x = zx.is_pos();
    // ilog2 / ilog10 depend on x only
    ck!("checked_ilog2", x.checked_ilog2(), if valid_x { Some(zx.bit_len() as u32 - 1) } else { None });
    let l10 = if valid_x { Some(ref_ilog(&zx, &ten)) } else { None };
    ck!("checked_ilog10", outcome(|| x.checked_ilog10()), Outcome::Returned(l10));
    if valid_x {
        ck!("ilog2", outcome(|| x.ilog2()), Outcome::Returned(zx.bit_len() as u32 - 1));
        ck!("ilog10", outcome(|| x.ilog10()), Outcome::Returned(l10.unwrap()));
    }
    let valid = valid_x && zb >= two;
    let exp = if valid { Some(ref_ilog(&zx, &zb)) } else { None };
    ck!("checked_ilog", outcome(|| x.checked_ilog(b)), Outcome::Returned(exp));
    if valid {
        ck!("ilog", outcome(|| x.ilog(b)), Outcome::Returned(exp.unwrap()));
    }
    if let Some(k) = exp {
        // within +-1 of an exact power b^k, k >= 1 ?
        let cap = T::W as u64 + 8;
        let pk = zb.pow_capped(k, cap);
        let pk1 = zb.pow_capped(k + 1, cap);
        let near = k >= 1 && (pk.as_ref().map_or(false, |p| zx.sub(p) <= Z::one()) || pk1.as_ref().map_or(false, |p| p.sub(&zx) <= Z::one()));
        obs.nt_if(near);
        obs.label_if(near, "x within +-1 of an exact power b^k (k >= 1)");
        obs.label_if(pk.as_ref().map_or(false, |p| *p == zx) && k >= 1, "x = b^k exactly");
        obs.label_if(k >= 2 && zb.bit_len() > T::DIGIT_BITS as u64, "multi-digit base, k >= 2");
        obs.label_if(k >= 64, "k >= 64");
    } else {
        obs.nt();
        obs.label("invalid log argument (x <= 0 or base < 2) -> None");
    }
    obs.note(|| format!("x={:?} b={:?} ilog={:?} ilog10={:?}", zx, zb, exp, l10));
    Ok(())
}

/// Sweep of EVERY exact power b^k that fits the type, with its two neighbours, for a base with its
/// own code path (10) and a few others: ilog(b^k - 1) = k - 1, ilog(b^k) = ilog(b^k + 1) = k.
/// The expected values are known by construction, no reference logarithm is needed.
fn eval_power_sweep<T: Int>(c: &(u64, u32), obs: &mut Obs) -> Result<(), String> {
    let (base, k) = *c;
    let zb = Z::from_u64(base);
    let maxbits = if T::SIGNED { T::W as u64 - 1 } else { T::W as u64 };
    let Some(p) = zb.pow_capped(k, maxbits) else { return Ok(()) };
    obs.nt_if(k >= 1);
    let b: T = T::of_z(&zb);
    for (d, expect) in [(-1i64, k as i64 - 1), (0, k as i64), (1, k as i64)] {
        let zx = p.add_i(d);
        if !zx.is_pos() || !fits::<T>(&zx) || (d == 1 && base == 2 && k == 0) {
            continue;
        }
        // b^k + 1 is still below b^(k+1) for b >= 2 except 1 + 1 = 2 = 2^1 (skipped above)
        let x: T = T::of_z(&zx);
        let e = expect as u32;
        if base == 10 {
            ck!(format!("checked_ilog10(10^{k} + {d})"), outcome(|| x.checked_ilog10()), Outcome::Returned(Some(e)));
        }
        if base == 2 {
            ck!(format!("checked_ilog2(2^{k} + {d})"), outcome(|| x.checked_ilog2()), Outcome::Returned(Some(e)));
        }
        // the generic logarithm to base 2 costs k long divisions: on types wider than 1088 bits it is
        // taken at every 16th exponent (checked_ilog2 at every one)
        let sparse = base == 2 && T::W > 1100 && k % 16 != 0 && (k as u64) + 4 < maxbits;
        if fits::<T>(&zb) && !sparse {
            ck!(format!("checked_ilog({base}^{k} + {d}, {base})"), outcome(|| x.checked_ilog(b)), Outcome::Returned(Some(e)));
        }
    }
    Ok(())
}

fn jobs_for<U, I>(jobs: &mut Vec<Job>)
where
    U: UInt + Int<I = I>,
    I: SInt + Int<U = U>,
{
    let sh: Shape = U::shape();
    let sc = width_scale(U::W);
    let q = move |base: u32| ((base as f64 * sc).ceil() as u32).max(25);
    jobs.push(Job::new(job_name::<U>("u/pow"), move |ctx| {
        ctx.run("pow", ctx.budget(q(QUICK), FACTOR), pow_cases(sh, false), eval_pow::<U>);
    }));
    jobs.push(Job::new(job_name::<U>("i/pow"), move |ctx| {
        ctx.run("pow", ctx.budget(q(QUICK), FACTOR), pow_cases(sh, true), eval_pow::<I>);
    }));
    jobs.push(Job::new(job_name::<U>("u/ilog"), move |ctx| {
        ctx.run("ilog", ctx.budget(q(QUICK), FACTOR), ilog_cases(sh, false), eval_ilog::<U>);
    }));
    jobs.push(Job::new(job_name::<U>("ilog_power_sweep"), move |ctx| {
        // every exponent for base 10 (own algorithm) and 2; bases 3, 7, 255, 65537 and 2^32 + 15 as well on types up to 1088 bits
        let w = U::W;
        let bases: Vec<u64> = if w > 1100 { vec![10, 2] } else { vec![10, 2, 3, 7, 255, 65537, (1u64 << 32) + 15] };
        let all = move || {
            let bases = bases.clone();
            bases.into_iter().flat_map(move |b| {
                let kmax = (w as f64 / (b as f64).log2()).floor() as u32 + 1;
                (0..=kmax).map(move |k| (b, k))
            })
        };
        ctx.enumerate("u", "every power b^k that fits (and b^k +- 1) for the swept bases, unsigned", all(), eval_power_sweep::<U>);
    }));
    jobs.push(Job::new(job_name::<U>("ilog_power_sweep_i"), move |ctx| {
        let w = U::W;
        let bases: Vec<u64> = if w > 1100 { vec![10, 2] } else { vec![10, 2, 3, 7, 255, 65537, (1u64 << 32) + 15] };
        let all = move || {
            let bases = bases.clone();
            bases.into_iter().flat_map(move |b| {
                let kmax = (w as f64 / (b as f64).log2()).floor() as u32 + 1;
                (0..=kmax).map(move |k| (b, k))
            })
        };
        ctx.enumerate("i", "every power b^k that fits (and b^k +- 1) for the swept bases, signed", all(), eval_power_sweep::<I>);
    }));
    jobs.push(Job::new(job_name::<U>("i/ilog"), move |ctx| {
        ctx.run("ilog", ctx.budget(q(QUICK), FACTOR), ilog_cases(sh, true), eval_ilog::<I>);
    }));
}

fn exhaustive(jobs: &mut Vec<Job>) {
    type U8 = bnum::BUintD8<1>;
    type I8 = bnum::BIntD8<1>;
    jobs.push(Job::new("small/exhaustive8@D8x1", |ctx| {
        let exps = || (0u32..=20).chain([31, 32, 33, 63, 64, 255, 256, 65535, 65536, u32::MAX - 1, u32::MAX].into_iter());
        let all = || (0..=255u8).flat_map(move |a| exps().map(move |e| (Pat(vec![a]), e)));
        ctx.enumerate("u_pow", "all bases x 32 exponents of BUintD8<1>", all(), eval_pow::<U8>);
        ctx.enumerate("i_pow", "all bases x 32 exponents of BIntD8<1>", all(), eval_pow::<I8>);
        let pairs = || (0..=255u8).flat_map(|a| (0..=255u8).map(move |b| (Pat(vec![a]), Pat(vec![b]))));
        ctx.enumerate("u_ilog", "all (x, base) of BUintD8<1>", pairs(), eval_ilog::<U8>);
        ctx.enumerate("i_ilog", "all (x, base) of BIntD8<1>", pairs(), eval_ilog::<I8>);
    }));
}

fn main() {
    let mut jobs = Vec::new();
    macro_rules! add {
        ($U:ty, $I:ty) => {
            jobs_for::<$U, $I>(&mut jobs);
            checks::siblings::topic_jobs::<$U, $I>(&mut jobs, checks::siblings::Group::Pow, 150, FACTOR);
        };
    }
    for_all_cfgs!(add);
    exhaustive(&mut jobs);
    runner::main(
        Property {
            id: "C08",
            rule: "pow: bases from {0, +-1, +-2, +-3, 10, small, 2^j, 2^j+-1, -2^j, uniform 0..64-bit, structured patterns} with exponents {0..5, W-1, W, uniform < 2W, u32::MAX, u32::MAX-1, 2^k, 2^k-1}, plus (base, floor(maxbits/log2|base|) + {-2..2}) pairs at the overflow threshold and k-th roots of the bound +-1 with exponent k+-1. Oracle: flag = a^e not representable, decided by capped exact exponentiation in the reference integer; wrapped value by left-to-right modular exponentiation mod 2^W (a different algorithm from bnum's loop; the two reference algorithms are cross-checked); saturating picks MIN for negative base and odd exponent. ilog: x in {b^k, b^k+-1, MAX, patterns} for bases {2, 3, 10, 16, small, 2^j, 2^j+-1, 64-bit, patterns, MAX}, plus invalid arguments (x <= 0, base < 2, negative); oracle = greatest k with b^k <= x by repeated multiplication; checked forms None exactly for invalid arguments; no panic inside the valid forms (dbg build has overflow checks). In addition a SWEEP enumerates, for every configuration, every exponent k with b^k representable for b = 10 and b = 2 (plus 3, 7, 255, 65537, 2^32+15 up to 1088 bits) and checks ilog at b^k - 1, b^k, b^k + 1, whose logarithms are known by construction. NON-TRIVIAL: |a|>=2, e>=2 and a^e within a factor |a| of the representable bound; or x within +-1 of an exact power b^k (k>=1); or an invalid log argument. distinct = distinct (profile, job, inputs) by 64-bit hash. 8-bit configuration: all bases x 32 exponents, all (x, base) pairs. SIBLINGS job (per configuration): the entry points of this property's own operations that other properties anchor - the six operand forms of the std operators (a op b, &a op b, a op &b, &a op &b, a op= b, a op= &b; for shifts every primitive and bnum-typed amount type), Sum/Product, and the num_traits forwarders - are compared with the inherent method / const twin (same value, same panic outcome), so that a regression confined to one rarely used entry point is reported by the check of the operation it belongs to as well as by C17/C18.",
            assumptions: &[
                "digits()/from_digits()/to_bits()/from_bits() are the trusted observation channel",
                "reference exponentiation: exact with a size cap and modular left-to-right; cross-checked against each other in every case where the exact value is small enough",
            ],
        },
        jobs,
        &[("refint", vlib::refint::self_test)],
    );
}
