//! C03 — division and remainder satisfy n = q*d + r with the documented rounding (DESIGN.md §4 C03)

use checks::api::{width_scale, Int, SInt, UInt};
use checks::common::*;
use checks::for_all_cfgs;
use proptest::prelude::*;
use vlib::gen::{self, Digit, Shape};
use vlib::runner::{self, outcome, Job, Obs, Outcome, Property};
use vlib::shadow::{digits_of, shadow_knuth};
use vlib::{ck, Pat, Z};

const QUICK: u32 = 1000;
const FACTOR: u32 = 20;

// ------------------------------------------------------------------------------------------------
// generators (magnitudes below 2^maxbits; maxbits = W for unsigned, W-1 for signed)
// ------------------------------------------------------------------------------------------------

fn zpat(z: &Z, sh: Shape) -> Pat {
    Pat(z.to_le_wrapped(sh.bytes))
}

/// divisor with k significant digits whose top digit has lz leading zeros
fn shaped_divisor(sh: Shape, maxbits: u64) -> BoxedStrategy<Z> {
    let n = sh.n();
    let db = sh.digit_bits() as u64;
    (gen::pattern(sh), 1..=n, 0..sh.digit_bits())
        .prop_map(move |(p, k, lz)| {
            let bits = (k as u64 * db - lz as u64).min(maxbits).max(1);
            let z = Z::from_le_unsigned(&p.0).mod_2k(bits);
            // force the top bit so the shape is exact
            if z.bit_len() == bits {
                z
            } else {
                z.mod_2k(bits - 1).add(&Z::pow2(bits - 1))
            }
        })
        .boxed()
}

/// family 1: pattern dividend, shaped divisor
fn fam_basic(sh: Shape, maxbits: u64) -> BoxedStrategy<(Z, Z)> {
    (gen::pattern(sh), shaped_divisor(sh, maxbits)).prop_map(move |(a, d)| (Z::from_le_unsigned(&a.0).mod_2k(maxbits), d)).boxed()
}

/// family 2: n = q*d + r constructed backwards
fn fam_constructed(sh: Shape, maxbits: u64) -> BoxedStrategy<(Z, Z)> {
    (shaped_divisor(sh, maxbits), gen::digitwise(sh), 0u8..7, gen::pattern(sh), 1i64..5)
        .prop_map(move |(d, qp, rsel, rp, delta)| {
            let qbits = maxbits - d.bit_len();
            let q = Z::from_le_unsigned(&qp.0).mod_2k(qbits);
            let r = match rsel {
                0 => Z::zero(),
                1 => Z::one().divrem_trunc(&d).1,
                2 => d.add_i(-1),
                3 => d.shr_floor(1),
                4 => Z::from_le_unsigned(&rp.0).divrem_trunc(&d).1,
                _ => {
                    let r = d.add_i(-delta);
                    if r.is_neg() {
                        Z::zero()
                    } else {
                        r
                    }
                }
            };
            (q.mul(&d).add(&r), d)
        })
        .boxed()
}

/// family 3: Algorithm-D stress shapes scaled to the digit base b
fn fam_knuth(sh: Shape, maxbits: u64) -> BoxedStrategy<(Z, Z)> {
    let n = sh.n();
    let db = sh.digit_bits() as u64;
    (0u8..8, shaped_divisor(sh, maxbits), gen::pattern(sh), 0..n, 1i64..4, gen::digitwise(sh))
        .prop_map(move |(sel, d, p, k, delta, qp)| {
            let b = |i: u64| Z::pow2(db * i);
            let fit = |x: Z| x.mod_2k(maxbits);
            let dg = |v: &[i64]| {
                // little-endian digit list; negative entries mean b - |x|; 1<<40 marks b/2, 1<<41 marks b/8
                let mut z = Z::zero();
                for (i, &x) in v.iter().enumerate() {
                    let val = if x == 1 << 40 {
                        Z::pow2(db - 1)
                    } else if x == 1 << 41 {
                        Z::pow2(db - 3)
                    } else if x < 0 {
                        Z::pow2(db).add_i(x)
                    } else {
                        Z::from_i64(x)
                    };
                    z = z.add(&val.mul(&b(i as u64)));
                }
                z
            };
            let off = if n > 3 { (k % (n - 2)) as u64 } else { 0 };
            let pair = match sel {
                // Hacker's Delight divmnu tests: add-back required
                0 if n >= 3 && maxbits >= 3 * db => (dg(&[3, 0, 1 << 40]).mul(&b(off)).mod_2k(maxbits), dg(&[1, 0, 1 << 41])),
                // first qhat = b + 1
                1 if n >= 3 && maxbits >= 3 * db => (dg(&[0, -2, 1 << 40]).mul(&b(off)).mod_2k(maxbits), dg(&[-1, 1 << 40])),
                // dividend's leading digits equal the divisor's: qhat = MAX branch
                2 => {
                    let kk = (k as u64).min((maxbits.saturating_sub(d.bit_len())) / db);
                    (fit(d.mul(&b(kk)).add_i(-delta)), d)
                }
                3 => {
                    let kk = (k as u64).min((maxbits.saturating_sub(d.bit_len())) / db);
                    (fit(d.mul(&b(kk)).add_i(delta)), d)
                }
                // dividend all ones
                4 => (Z::pow2(maxbits).add_i(-1), d),
                // divisors b^k/2 +- 1, b^k - 1
                5 => {
                    let kk = ((k % n) as u64 + 1).min(maxbits / db).max(1);
                    let dd = match delta {
                        1 => b(kk).shr_floor(1).add_i(1),
                        2 => b(kk).shr_floor(1).add_i(-1),
                        _ => b(kk).add_i(-1),
                    };
                    let dd = if dd.is_zero() { Z::one() } else { fit(dd) };
                    (Z::from_le_unsigned(&p.0).mod_2k(maxbits), if dd.is_zero() { Z::one() } else { dd })
                }
                // add-back family: n = q*d + (d - delta), d with >= 3 digits and large low digits
                _ => {
                    let d3 = if d.bit_len() > 2 * db { d.clone() } else { fit(d.add(&b(2)).add(&Z::pow2(db).add_i(-1))) };
                    let d3 = if d3.is_zero() { Z::one() } else { d3 };
                    let qbits = maxbits.saturating_sub(d3.bit_len());
                    let q = Z::from_le_unsigned(&qp.0).mod_2k(qbits);
                    let r = d3.add_i(-delta);
                    let r = if r.is_neg() { Z::zero() } else { r };
                    (q.mul(&d3).add(&r), d3)
                }
            };
            let (nn, dd) = pair;
            (nn, if dd.is_zero() { Z::one() } else { dd })
        })
        .boxed()
}

fn mags(sh: Shape, maxbits: u64) -> BoxedStrategy<(Z, Z)> {
    prop_oneof![3 => fam_basic(sh, maxbits), 4 => fam_constructed(sh, maxbits), 3 => fam_knuth(sh, maxbits)].boxed()
}

fn unsigned_pairs(sh: Shape) -> BoxedStrategy<(Pat, Pat)> {
    let w = sh.bits() as u64;
    prop_oneof![
        30 => mags(sh, w).prop_map(move |(n, d)| (zpat(&n, sh), zpat(&d, sh))),
        3 => gen::pattern_pair(sh),
        1 => gen::pattern(sh).prop_map(move |n| (n, Pat(vec![0u8; sh.bytes]))),
    ]
    .boxed()
}

fn signed_pairs(sh: Shape) -> BoxedStrategy<(Pat, Pat)> {
    let w = sh.bits() as u64;
    let specials = (gen::pattern(sh), 0u8..18, gen::pattern(sh), prop_oneof![gen::digitwise(sh), gen::runs(sh), gen::short(sh)]).prop_map(move |(p, sel, p2, p3)| {
        let x = Z::from_le_signed(&p.0);
        let y = Z::from_le_signed(&p2.0);
        let min = Z::pow2(w - 1).neg();
        let max = Z::pow2(w - 1).add_i(-1);
        let (n, d) = match sel {
            0 => (min.clone(), y),
            1 => (x, min.clone()),
            2 => (x, Z::from_i64(1)),
            3 => (x, Z::from_i64(-1)),
            4 => (x, Z::from_i64(2)),
            5 => (x, Z::from_i64(-2)),
            6 => (x.clone(), x),
            7 => (x.neg(), x),
            8 => (min.clone(), Z::from_i64(-1)),
            9 => (min.clone(), min.clone()),
            10 => (max, Z::from_i64(-1)),
            11 => (min.add_i(1), Z::from_i64(-1)),
            // the extreme dividends against digit-wise structured divisors, and the reverse
            12 => (min.clone(), Z::from_le_signed(&p3.0)),
            13 => (min.add_i(1), Z::from_le_signed(&p3.0)),
            14 => (max, Z::from_le_signed(&p3.0)),
            15 => (Z::from_i64(-1), Z::from_le_signed(&p3.0)),
            16 => (Z::from_le_signed(&p3.0), min.clone()),
            _ => (Z::from_le_signed(&p3.0), max),
        };
        (zpat(&n, sh), zpat(&d, sh))
    });
    prop_oneof![
        30 => (mags(sh, w - 1), any::<bool>(), any::<bool>()).prop_map(move |((n, d), sn, sd)| {
            (zpat(&if sn { n.neg() } else { n }, sh), zpat(&if sd { d.neg() } else { d }, sh))
        }),
        4 => specials,
        3 => gen::pattern_pair(sh),
        1 => gen::pattern(sh).prop_map(move |n| (n, Pat(vec![0u8; sh.bytes]))),
    ]
    .boxed()
}

// ------------------------------------------------------------------------------------------------
// oracles
// ------------------------------------------------------------------------------------------------

fn classify<T: Int>(obs: &mut Obs, zn: &Z, zd: &Z, r: &Z) {
    let sh = T::shape();
    let db = sh.digit_bits();
    let un = digits_of(&zn.abs().to_le_wrapped(sh.bytes), db);
    let ud = digits_of(&zd.abs().to_le_wrapped(sh.bytes), db);
    let ks = shadow_knuth(&un, &ud, db);
    let rounding_differs = T::SIGNED && !r.is_zero() && (zn.is_neg() || zd.is_neg());
    obs.nt_if(ks.reached || rounding_differs);
    obs.label_if(ks.reached, "Algorithm D reached (divisor >= 2 digits, |n| >= |d|)");
    obs.label_if(ks.steps >= 2, "Algorithm D: >= 2 quotient digits");
    obs.label_if(ks.qhat_max > 0, "Algorithm D: qhat = MAX branch");
    obs.label_if(ks.corr1 > 0, "Algorithm D: qhat corrected once");
    obs.label_if(ks.corr2 > 0, "Algorithm D: qhat corrected twice");
    if ks.addback > 0 {
        obs.label("Algorithm D: add-back fired");
        obs.label(match db {
            8 => "add-back (u8 digits)",
            16 => "add-back (u16 digits)",
            32 => "add-back (u32 digits)",
            _ => "add-back (u64 digits)",
        });
    }
    obs.label_if(ks.reached && ks.shift_zero, "Algorithm D: normalisation shift = 0");
    obs.label_if(rounding_differs, "signed, non-zero remainder, negative operand (rounding variants differ)");
    obs.label_if(r.is_zero() && !zn.is_zero(), "exact division");
}

fn zero_divisor<T: Int>(n: T, d: T, obs: &mut Obs) -> Result<(), String> {
    obs.nt();
    obs.label("zero divisor (checked forms)");
    ck!("checked_div by zero", n.checked_div(d).map(|v| st(&v)), None);
    ck!("checked_rem by zero", n.checked_rem(d).map(|v| st(&v)), None);
    ck!("checked_div_euclid by zero", n.checked_div_euclid(d).map(|v| st(&v)), None);
    ck!("checked_rem_euclid by zero", n.checked_rem_euclid(d).map(|v| st(&v)), None);
    ck!("checked_next_multiple_of zero", n.checked_next_multiple_of(d).map(|v| st(&v)), None);
    Ok(())
}

fn ret<T: Int>(z: &Z) -> Outcome<Pat> {
    Outcome::Returned(pz::<T>(z))
}

/// everything that is defined by truncation (q, r), Euclid (qe, re), floor qf, ceiling qc
fn check_all<T: Int>(n: T, d: T, zn: &Z, zd: &Z, obs: &mut Obs) -> Result<(), String> {
    let (q, r) = zn.divrem_trunc(zd);
    // derive the other roundings from the truncated pair by definition (uniqueness conditions asserted below)
    let (qe, re) = if r.is_neg() {
        if zd.is_neg() {
            (q.add_i(1), r.sub(zd))
        } else {
            (q.add_i(-1), r.add(zd))
        }
    } else {
        (q.clone(), r.clone())
    };
    let qf = if !r.is_zero() && (r.is_neg() != zd.is_neg()) { q.add_i(-1) } else { q.clone() };
    let qc = if !r.is_zero() && (r.is_neg() == zd.is_neg()) { q.add_i(1) } else { q.clone() };
    // oracle sanity (harness side): the defining properties hold for the reference results
    assert!(q.mul(zd).add(&r) == *zn && r.abs() < zd.abs() && (r.is_zero() || r.is_neg() == zn.is_neg()));
    assert!(qe.mul(zd).add(&re) == *zn && !re.is_neg() && re < zd.abs());
    assert!(qf.mul(zd) <= *zn || zd.is_neg());
    classify::<T>(obs, zn, zd, &r);

    let (qp, rp) = (pz::<T>(&q), pz::<T>(&r));
    ck!("operator /", st(&(n / d)), qp.clone());
    ck!("operator %", st(&(n % d)), rp.clone());
    ck!("div (const twin)", st(&n.c_div(d)), qp.clone());
    ck!("rem (const twin)", st(&n.c_rem(d)), rp.clone());
    ck!("checked_div", n.checked_div(d).map(|v| st(&v)), Some(qp.clone()));
    ck!("checked_rem", n.checked_rem(d).map(|v| st(&v)), Some(rp.clone()));
    ck!("wrapping_div", st(&n.wrapping_div(d)), qp.clone());
    ck!("wrapping_rem", st(&n.wrapping_rem(d)), rp.clone());
    ck!("overflowing_div", { let (v, f) = n.overflowing_div(d); (st(&v), f) }, (qp.clone(), false));
    ck!("overflowing_rem", { let (v, f) = n.overflowing_rem(d); (st(&v), f) }, (rp.clone(), false));
    ck!("saturating_div", st(&n.saturating_div(d)), qp.clone());
    ck!("strict_div", oc(|| n.strict_div(d)), ret::<T>(&q));
    ck!("strict_rem", oc(|| n.strict_rem(d)), ret::<T>(&r));

    let (qep, rep) = (pz::<T>(&qe), pz::<T>(&re));
    ck!("div_euclid", st(&n.div_euclid(d)), qep.clone());
    ck!("rem_euclid", st(&n.rem_euclid(d)), rep.clone());
    ck!("checked_div_euclid", n.checked_div_euclid(d).map(|v| st(&v)), Some(qep.clone()));
    ck!("checked_rem_euclid", n.checked_rem_euclid(d).map(|v| st(&v)), Some(rep.clone()));
    ck!("wrapping_div_euclid", st(&n.wrapping_div_euclid(d)), qep.clone());
    ck!("wrapping_rem_euclid", st(&n.wrapping_rem_euclid(d)), rep.clone());
    ck!("overflowing_div_euclid", { let (v, f) = n.overflowing_div_euclid(d); (st(&v), f) }, (qep.clone(), false));
    ck!("overflowing_rem_euclid", { let (v, f) = n.overflowing_rem_euclid(d); (st(&v), f) }, (rep.clone(), false));
    ck!("strict_div_euclid", oc(|| n.strict_div_euclid(d)), ret::<T>(&qe));
    ck!("strict_rem_euclid", oc(|| n.strict_rem_euclid(d)), ret::<T>(&re));

    ck!("div_floor", st(&n.div_floor(d)), pz::<T>(&qf));
    ck!("div_ceil", st(&n.div_ceil(d)), pz::<T>(&qc));

    // next multiple: ceil(n/d)*d is the multiple of d at or beyond n in the direction of d's sign
    let m = qc.mul(zd);
    let mfits = fits::<T>(&m);
    obs.label_if(!mfits, "next multiple not representable");
    obs.label_if(mfits && m != *zn, "next multiple differs from self");
    ck!("checked_next_multiple_of", n.checked_next_multiple_of(d).map(|v| st(&v)), if mfits { Some(pz::<T>(&m)) } else { None });
    if mfits {
        ck!("next_multiple_of", oc(|| n.next_multiple_of(d)), ret::<T>(&m));
    }

    // reconstruction identity from bnum's own outputs (two-directional: right pair and in-range remainder)
    let (qb, rb) = ((n / d).z(), (n % d).z());
    ck!("q*d + r reconstructs n", qb.mul(zd).add(&rb), zn.clone());
    vlib::ck_true!("|r| < |d|", rb.abs() < zd.abs());
    vlib::ck_true!("r has the sign of n or is zero", rb.is_zero() || rb.is_neg() == zn.is_neg());
    obs.note(|| format!("n={:?} d={:?} trunc=({:?},{:?}) euclid=({:?},{:?}) floor={:?} ceil={:?}", zn, zd, q, r, qe, re, qf, qc));
    Ok(())
}

fn eval_u<U: UInt>(c: &(Pat, Pat), obs: &mut Obs) -> Result<(), String> {
    let (n, d): (U, U) = (ld(&c.0), ld(&c.1));
    let (zn, zd) = (n.z(), d.z());
    if zd.is_zero() {
        return zero_divisor(n, d, obs);
    }
    check_all::<U>(n, d, &zn, &zd, obs)
}

fn eval_i<I: SInt>(c: &(Pat, Pat), obs: &mut Obs) -> Result<(), String> {
    let (n, d): (I, I) = (ld(&c.0), ld(&c.1));
    let (zn, zd) = (n.z(), d.z());
    if zd.is_zero() {
        return zero_divisor(n, d, obs);
    }
    if zn == zmin::<I>() && zd == Z::from_i64(-1) {
        obs.nt();
        obs.label("signed MIN / -1");
        let min = pz::<I>(&zn);
        let zero = pz::<I>(&Z::zero());
        ck!("checked_div(MIN,-1)", n.checked_div(d).map(|v| st(&v)), None);
        ck!("checked_rem(MIN,-1)", n.checked_rem(d).map(|v| st(&v)), None);
        ck!("checked_div_euclid(MIN,-1)", n.checked_div_euclid(d).map(|v| st(&v)), None);
        ck!("checked_rem_euclid(MIN,-1)", n.checked_rem_euclid(d).map(|v| st(&v)), None);
        ck!("overflowing_div(MIN,-1)", { let (v, f) = n.overflowing_div(d); (st(&v), f) }, (min.clone(), true));
        ck!("overflowing_div_euclid(MIN,-1)", { let (v, f) = n.overflowing_div_euclid(d); (st(&v), f) }, (min.clone(), true));
        ck!("overflowing_rem(MIN,-1)", { let (v, f) = n.overflowing_rem(d); (st(&v), f) }, (zero.clone(), true));
        ck!("overflowing_rem_euclid(MIN,-1)", { let (v, f) = n.overflowing_rem_euclid(d); (st(&v), f) }, (zero.clone(), true));
        ck!("wrapping_div(MIN,-1)", st(&n.wrapping_div(d)), min.clone());
        ck!("wrapping_div_euclid(MIN,-1)", st(&n.wrapping_div_euclid(d)), min.clone());
        ck!("wrapping_rem(MIN,-1)", st(&n.wrapping_rem(d)), zero.clone());
        ck!("wrapping_rem_euclid(MIN,-1)", st(&n.wrapping_rem_euclid(d)), zero.clone());
        ck!("saturating_div(MIN,-1)", st(&n.saturating_div(d)), pz::<I>(&zmax::<I>()));
        ck!("strict_div(MIN,-1) panics", oc(|| n.strict_div(d)).is_panic(), true);
        ck!("strict_rem(MIN,-1) panics", oc(|| n.strict_rem(d)).is_panic(), true);
        ck!("strict_div_euclid(MIN,-1) panics", oc(|| n.strict_div_euclid(d)).is_panic(), true);
        ck!("strict_rem_euclid(MIN,-1) panics", oc(|| n.strict_rem_euclid(d)).is_panic(), true);
        // MIN is a multiple of -1: the next multiple is MIN itself
        ck!("checked_next_multiple_of(MIN,-1)", n.checked_next_multiple_of(d).map(|v| st(&v)), Some(min.clone()));
        return Ok(());
    }
    check_all::<I>(n, d, &zn, &zd, obs)
}

/// Div<digit> / Rem<digit> values
fn eval_digit<U: UInt>(c: &(Pat, u64), obs: &mut Obs) -> Result<(), String> {
    let n: U = ld(&c.0);
    let dv = c.1 & (u64::MAX >> (64 - U::DIGIT_BITS));
    if dv == 0 {
        return Ok(());
    }
    let dd = <U::D as Digit>::from_u64(dv);
    let (q, r) = n.z().divrem_trunc(&Z::from_u64(dv));
    ck!("Div<digit>", st(&(n / dd)), pz::<U>(&q));
    ck!("Rem<digit>", Z::from_u64((n % dd).to_u64()), r.clone());
    obs.nt_if(sig_digits(&c.0 .0, U::shape().digit_bytes) >= 2);
    obs.label_if(sig_digits(&c.0 .0, U::shape().digit_bytes) >= 2, "digit divisor, multi-digit dividend");
    let _ = outcome(|| ());
    Ok(())
}

/// single-digit divisors (all sizes: below half a digit, conversion bases 10^k, extreme digits) with
/// dividends whose digits / half digits are small multiples of the divisor or miss it by one
fn digit_relative(sh: Shape) -> BoxedStrategy<(Pat, u64)> {
    let db = sh.digit_bits();
    let dmax: u64 = if db == 64 { u64::MAX } else { (1u64 << db) - 1 };
    let divisor = prop_oneof![
        3 => gen::digit_value(sh.digit_bytes),
        3 => (1u32..=db / 2).prop_flat_map(|k| 1u64..(1u64 << k)),
        2 => (0u32..20).prop_map(move |k| { let mut p = 1u64; for _ in 0..k { if p.checked_mul(10).map_or(true, |q| q > dmax) { break; } p *= 10; } p }),
        2 => (2u64..=36, 1u32..14).prop_map(move |(r, k)| { let mut p = r; for _ in 1..k { if p.checked_mul(r).map_or(true, |q| q > dmax) { break; } p *= r; } p }),
        1 => any::<u64>().prop_map(move |x| (x & dmax).max(1)),
    ];
    divisor.prop_flat_map(move |d| { let d = (d & dmax).max(1); (gen::base_aligned(sh, d), Just(d)) }).boxed()
}

fn jobs_for<U, I>(jobs: &mut Vec<Job>)
where
    U: UInt + Int<I = I>,
    I: SInt + Int<U = U>,
{
    let sh: Shape = U::shape();
    let sc = width_scale(U::W);
    let q = move |base: u32| ((base as f64 * sc).ceil() as u32).max(30);
    jobs.push(Job::new(job_name::<U>("u/div_rem"), move |ctx| {
        ctx.run("div_rem", ctx.budget(q(QUICK * 2), FACTOR), unsigned_pairs(sh), eval_u::<U>);
    }));
    jobs.push(Job::new(job_name::<U>("i/div_rem"), move |ctx| {
        ctx.run("div_rem", ctx.budget(q(QUICK * 2), FACTOR), signed_pairs(sh), eval_i::<I>);
    }));
    jobs.push(Job::new(job_name::<U>("sweep"), move |ctx| {
        let full = ctx.tier() == vlib::Tier::Thorough;
        // powers of two and their neighbours as dividends and divisors, at every bit position
        ctx.enumerate("div_u", "position pairs for every bit position", position_pairs(sh, full), eval_u::<U>);
        ctx.enumerate("div_i", "position pairs for every bit position", position_pairs(sh, full), eval_i::<I>);
        let maxv = Pat(vec![0xffu8; sh.bytes]);
        let m2 = maxv.clone();
        ctx.enumerate("max_by_u", "MAX divided by 2^k - 1, 2^k, 2^k + 1 for every k", position_values(sh, full).map(move |d| (maxv.clone(), d)), eval_u::<U>);
        let mut minp = vec![0u8; sh.bytes];
        minp[sh.bytes - 1] = 0x80;
        let minp = Pat(minp);
        ctx.enumerate("min_by_i", "MIN and -1 divided by +-(2^k - 1), +-2^k, +-(2^k + 1) for every k", position_values(sh, full).flat_map(move |d| [(minp.clone(), d.clone()), (m2.clone(), d)]), eval_i::<I>);
    }));
    jobs.push(Job::new(job_name::<U>("u/digit"), move |ctx| {
        ctx.run("digit", ctx.budget(q(QUICK / 2), FACTOR), (gen::pattern(sh), gen::digit_value(sh.digit_bytes)), eval_digit::<U>);
        ctx.run("digit_relative", ctx.budget(q(QUICK / 2), FACTOR), digit_relative(sh), eval_digit::<U>);
        // the same operands through every general division form (single-digit divisors take div_rem_digit)
        ctx.run("digit_relative_general", ctx.budget(q(QUICK / 2), FACTOR), digit_relative(sh).prop_map(move |(n, d)| (n, zpat(&Z::from_u64(d), sh))), eval_u::<U>);
        ctx.run("digit_relative_general_i", ctx.budget(q(QUICK / 4), FACTOR), (digit_relative(sh), any::<bool>(), any::<bool>()).prop_map(move |((n, d), sn, sd)| {
            let zn = Z::from_le_unsigned(&n.0).mod_2k(sh.bits() as u64 - 1);
            let zd = Z::from_u64(d).mod_2k(sh.bits() as u64 - 1);
            (zpat(&if sn { zn.neg() } else { zn }, sh), zpat(&if sd { zd.neg() } else { zd }, sh))
        }), eval_i::<I>);
    }));
}

fn exhaustive8(jobs: &mut Vec<Job>) {
    type U8 = bnum::BUintD8<1>;
    type I8 = bnum::BIntD8<1>;
    jobs.push(Job::new("small/exhaustive8@D8x1", |ctx| {
        let pairs = || (0..=255u8).flat_map(|a| (0..=255u8).map(move |b| (Pat(vec![a]), Pat(vec![b]))));
        ctx.enumerate("u_div_rem", "all (n, d) of BUintD8<1>", pairs(), eval_u::<U8>);
        ctx.enumerate("i_div_rem", "all (n, d) of BIntD8<1>", pairs(), eval_i::<I8>);
    }));
}

fn main() {
    let mut jobs = Vec::new();
    macro_rules! add {
        ($U:ty, $I:ty) => {
            jobs_for::<$U, $I>(&mut jobs);
            checks::siblings::topic_jobs::<$U, $I>(&mut jobs, checks::siblings::Group::DivRem, 150, FACTOR);
        };
    }
    for_all_cfgs!(add);
    exhaustive8(&mut jobs);
    runner::main(
        Property {
            id: "C03",
            rule: "(dividend, divisor) pairs come from: (1) structured patterns with the divisor shaped to k = 1..N significant digits and 0..digit_bits-1 leading zeros in its top digit; (2) backwards construction n = q*d + r with r in {0, 1, d-1, d/2, random, d-delta} and extreme quotient digits; (3) Algorithm-D stress shapes scaled to each digit base (Hacker's Delight add-back and qhat=b+1 cases, dividends whose leading digits equal the divisor's, divisors b^k/2+-1 and b^k-1, all-ones dividend, add-back family n = q*d + d - delta with >=3-digit divisors); (4) signed: all sign combinations plus MIN, -1, +-1, +-2, n=+-d, (MIN,-1), and MIN / MIN+1 / MAX / -1 against digit-wise structured divisors (and the reverse); (5) zero divisors for the checked forms; (6) single-digit divisors (below half a digit, powers of the radices 2..36, extreme digits) with dividends built from whole-digit or half-digit chunks that are small multiples of the divisor or miss it by one, so that the partial dividend of a short-division step equals the divisor - through Div/Rem<digit> and through every general form, signed and unsigned. Every case checks / % div rem and the checked/wrapping/overflowing/saturating/strict forms of div, rem, div_euclid, rem_euclid, plus div_floor, div_ceil, (checked_)next_multiple_of, against a binary shift-subtract reference division and re-derives n = q*d + r from bnum's own outputs. NON-TRIVIAL: a shadow run of Algorithm D on the reference side says the multi-digit path is reached (divisor >= 2 digits and |n| >= |d|), or signed operands with non-zero remainder and a negative operand (rounding variants differ), or a special case (zero divisor, MIN/-1). distinct = distinct (profile, job, inputs) among non-trivial cases by 64-bit hash. 8-bit configuration enumerated completely. A deterministic SWEEP additionally enumerates, per configuration, position-specific inputs (2^k - 1, 2^k, 2^k + 1 with their negations and complements; carry / borrow chains and power-of-two products ending at every bit position k; every shift / rotate amount; every bit index; every float exponent) - all positions on types up to 1088 bits, a sparse selection of a few hundred positions on wider types in the quick tier, all positions in the thorough tier. SIBLINGS job (per configuration): the entry points of this property's own operations that other properties anchor - the six operand forms of the std operators (a op b, &a op b, a op &b, &a op &b, a op= b, a op= &b; for shifts every primitive and bnum-typed amount type), Sum/Product, and the num_traits forwarders - are compared with the inherent method / const twin (same value, same panic outcome), so that a regression confined to one rarely used entry point is reported by the check of the operation it belongs to as well as by C17/C18.",
            assumptions: &[
                "digits()/from_digits()/to_bits()/from_bits() are the trusted observation channel",
                "reference division is binary shift-and-subtract (no quotient-digit estimation), self-tested on every run",
                "the shadow Algorithm D run only labels cases; it is never used as an oracle",
                "un-suffixed div_floor/div_ceil/div_euclid/rem_euclid/next_multiple_of on (MIN,-1) are outside the property",
            ],
        },
        jobs,
        &[("refint", vlib::refint::self_test), ("shadow_knuth", vlib::shadow::self_test)],
    );
}
