//! C16 — results depend only on width, signedness and value, never on the digit type; extension
//! commutes with value-level operations; constants and aliases (DESIGN.md §4 C16)

use bnum::cast::{As, CastFrom};
use checks::api::{Int, SInt, UInt};
use checks::common::*;
use proptest::prelude::*;
use vlib::case::Bytes;
use vlib::fmt_model::{fmt_any, TRAITS};
use vlib::gen::{self, Shape};
use vlib::parse_model::{parse_expect, Expect};
use vlib::runner::{self, outcome, Job, Obs, Outcome, Property};
use vlib::{ck, Pat, Z};

const QUICK: u32 = 2000;
const FACTOR: u32 = 20;

// ------------------------------------------------------------------------------------------------
// (a) equal width, different digit type: one operand tuple, a broad operation table, results
//     normalised to strings; the vectors of all members of a width group must be identical
// ------------------------------------------------------------------------------------------------

type Tuple = (Pat, Pat, Pat, u32, u32, u32, Bytes, u64);

fn o<R: std::fmt::Debug>(f: impl FnOnce() -> R) -> String {
    match outcome(f) {
        Outcome::Returned(v) => format!("{:?}", v),
        Outcome::Panic(_) => "Panicked".to_string(),
    }
}
fn s<T: Int>(x: T) -> Pat {
    st(&x)
}
fn so<T: Int>(x: Option<T>) -> Option<Pat> {
    x.map(|v| st(&v))
}
fn sp<T: Int>(x: (T, bool)) -> (Pat, bool) {
    (st(&x.0), x.1)
}

fn common_ops<T: Int>(v: &mut Vec<(String, String)>, tag: &str, c: &Tuple)
where
    f32: CastFrom<T>,
    f64: CastFrom<T>,
    T: CastFrom<f32> + CastFrom<f64>,
    u8: CastFrom<T>, u16: CastFrom<T>, u32: CastFrom<T>, u64: CastFrom<T>, u128: CastFrom<T>, usize: CastFrom<T>,
    i8: CastFrom<T>, i16: CastFrom<T>, i32: CastFrom<T>, i64: CastFrom<T>, i128: CastFrom<T>, isize: CastFrom<T>,
{
    let (a, b, k): (T, T, T) = (ld(&c.0), ld(&c.1), ld(&c.2));
    let (sh, e, radix) = (c.3, c.4, 2 + c.5 % 35);
    let mut p = |name: &str, val: String| v.push((format!("{tag}.{name}"), val));
    // C01
    p("overflowing_add", o(|| sp(a.overflowing_add(b))));
    p("overflowing_sub", o(|| sp(a.overflowing_sub(b))));
    p("checked_add", o(|| so(a.checked_add(b))));
    p("saturating_add", o(|| s(a.saturating_add(b))));
    p("saturating_sub", o(|| s(a.saturating_sub(b))));
    p("carrying_add", o(|| sp(a.carrying_add(b, sh & 1 == 1))));
    p("borrowing_sub", o(|| sp(a.borrowing_sub(b, sh & 1 == 1))));
    p("overflowing_neg", o(|| sp(a.overflowing_neg())));
    p("abs_diff", o(|| s(a.abs_diff(b))));
    p("midpoint", o(|| s(a.midpoint(b))));
    p("op +", o(|| s(a + b)));
    p("op -", o(|| s(a - b)));
    // C02
    p("overflowing_mul", o(|| sp(a.overflowing_mul(b))));
    p("saturating_mul", o(|| s(a.saturating_mul(b))));
    p("op *", o(|| s(a * b)));
    // C03
    p("checked_div", o(|| so(a.checked_div(b))));
    p("checked_rem", o(|| so(a.checked_rem(b))));
    p("checked_div_euclid", o(|| so(a.checked_div_euclid(b))));
    p("checked_rem_euclid", o(|| so(a.checked_rem_euclid(b))));
    p("overflowing_div", o(|| sp(a.overflowing_div(b))));
    p("div_floor", o(|| s(a.div_floor(b))));
    p("div_ceil", o(|| s(a.div_ceil(b))));
    p("checked_next_multiple_of", o(|| so(a.checked_next_multiple_of(b))));
    p("op /", o(|| s(a / b)));
    p("op %", o(|| s(a % b)));
    p("a / k", o(|| so(a.checked_div(k))));
    // C05
    p("checked_shl", o(|| so(a.checked_shl(sh))));
    p("checked_shr", o(|| so(a.checked_shr(sh))));
    p("overflowing_shl", o(|| sp(a.overflowing_shl(sh))));
    p("overflowing_shr", o(|| sp(a.overflowing_shr(sh))));
    p("unbounded_shl", o(|| s(a.unbounded_shl(sh))));
    p("unbounded_shr", o(|| s(a.unbounded_shr(sh))));
    p("rotate_left", o(|| s(a.rotate_left(sh))));
    p("rotate_right", o(|| s(a.rotate_right(e))));
    p("op <<", o(|| s(a << sh)));
    p("op >>", o(|| s(a >> sh)));
    // C06
    p("and/or/xor/not", o(|| (s(a & b), s(a | b), s(a ^ b), s(!a))));
    p("counts", o(|| (a.count_ones(), a.count_zeros(), a.leading_zeros(), a.trailing_zeros(), a.leading_ones(), a.trailing_ones(), a.bits())));
    p("bit", o(|| a.bit(sh % T::W)));
    p("is_power_of_two", o(|| a.is_power_of_two()));
    p("swap_bytes", o(|| s(a.swap_bytes())));
    p("reverse_bits", o(|| s(a.reverse_bits())));
    // C07
    p("cmp", o(|| (a.cmp(&b), a == b, a < b, s(a.c_max(b)), s(a.c_min(b)))));
    // C08
    p("overflowing_pow", o(|| sp(a.overflowing_pow(e))));
    p("saturating_pow", o(|| s(a.saturating_pow(e))));
    p("k.overflowing_pow", o(|| sp(k.overflowing_pow(e % 70))));
    p("checked_ilog", o(|| a.checked_ilog(b)));
    p("checked_ilog(k)", o(|| a.checked_ilog(k)));
    p("checked_ilog2", o(|| a.checked_ilog2()));
    p("checked_ilog10", o(|| a.checked_ilog10()));
    p("pow (profile dependent)", o(|| s(a.pow(e % 40))));
    // radix output and parsing
    p("to_str_radix", o(|| a.to_str_radix(radix)));
    p("to_radix_be", o(|| a.to_radix_be(2 + c.5 % 255)));
    p("to_radix_le", o(|| a.to_radix_le(2 + (c.5 / 7) % 255)));
    if let Ok(text) = std::str::from_utf8(&c.6 .0) {
        // the error kind for LONG invalid strings may legitimately depend on the digit type's chunk size
        let fixed = !matches!(parse_expect(&c.6 .0, radix, T::W as u64, T::SIGNED), Expect::AnyErr);
        let r = o(|| T::from_str_radix(text, radix).map(|v| st(&v)).map_err(|e| format!("{:?}", e.kind())));
        p("from_str_radix", if fixed { r } else if r.starts_with("Err") { "Err(any)".into() } else { r });
        p("parse_bytes", o(|| so(T::parse_bytes(&c.6 .0, radix))));
    }
    let digs: Vec<u8> = c.6 .0.iter().map(|&x| (x as u32 % (2 + (c.5 % 255))) as u8).collect();
    p("from_radix_be", o(|| so(T::from_radix_be(&digs, 2 + c.5 % 255))));
    p("from_radix_le", o(|| so(T::from_radix_le(&digs, 2 + c.5 % 255))));
    // byte slices
    p("from_be_slice", o(|| so(T::from_be_slice(&c.6 .0))));
    p("from_le_slice", o(|| so(T::from_le_slice(&c.6 .0))));
    // formatting: all eight traits, three specifications each
    for (ti, &tr) in TRAITS.iter().enumerate() {
        for si in [0usize, 15, (c.5 as usize + ti * 7) % 160] {
            p(&format!("fmt {:?} spec {}", tr, si), o(|| fmt_any(&a, tr, si, (c.4 % 90) as usize)));
        }
    }
    // casts
    p("as f32", o(|| a.as_::<f32>().to_bits()));
    p("as f64", o(|| a.as_::<f64>().to_bits()));
    p("from f64", o(|| s(f64::from_bits(c.7).as_::<T>())));
    p("from f32", o(|| s(f32::from_bits(c.7 as u32).as_::<T>())));
    p("as prims", o(|| (a.as_::<u8>(), a.as_::<u16>(), a.as_::<u32>(), a.as_::<u64>(), a.as_::<u128>(), a.as_::<usize>(), a.as_::<i8>(), a.as_::<i16>(), a.as_::<i32>(), a.as_::<i64>(), a.as_::<i128>(), a.as_::<isize>())));
}

fn ops_vector<U, I>(c: &Tuple) -> Vec<(String, String)>
where
    U: UInt + Int<I = I> + CastFrom<f32> + CastFrom<f64>,
    I: SInt + Int<U = U> + CastFrom<f32> + CastFrom<f64>,
    f32: CastFrom<U> + CastFrom<I>,
    f64: CastFrom<U> + CastFrom<I>,
    u8: CastFrom<U> + CastFrom<I>, u16: CastFrom<U> + CastFrom<I>, u32: CastFrom<U> + CastFrom<I>, u64: CastFrom<U> + CastFrom<I>, u128: CastFrom<U> + CastFrom<I>, usize: CastFrom<U> + CastFrom<I>,
    i8: CastFrom<U> + CastFrom<I>, i16: CastFrom<U> + CastFrom<I>, i32: CastFrom<U> + CastFrom<I>, i64: CastFrom<U> + CastFrom<I>, i128: CastFrom<U> + CastFrom<I>, isize: CastFrom<U> + CastFrom<I>,
{
    let mut v = Vec::with_capacity(260);
    common_ops::<U>(&mut v, "U", c);
    common_ops::<I>(&mut v, "I", c);
    let (a, b, k): (U, U, U) = (ld(&c.0), ld(&c.1), ld(&c.2));
    let (ia, ib): (I, I) = (ld(&c.0), ld(&c.1));
    let mut p = |name: &str, val: String| v.push((name.to_string(), val));
    p("U.widening_mul", o(|| { let (l, h) = a.widening_mul(b); (s(l), s(h)) }));
    p("U.carrying_mul", o(|| { let (l, h) = a.carrying_mul(b, k); (s(l), s(h)) }));
    p("U.overflowing_add_signed", o(|| sp(a.overflowing_add_signed(ib))));
    p("U.saturating_add_signed", o(|| s(a.saturating_add_signed(ib))));
    p("U.checked_next_power_of_two", o(|| so(a.checked_next_power_of_two())));
    p("I.overflowing_abs", o(|| sp(ia.overflowing_abs())));
    p("I.unsigned_abs", o(|| s(ia.unsigned_abs())));
    p("I.overflowing_add_unsigned", o(|| sp(ia.overflowing_add_unsigned(b))));
    p("I.saturating_sub_unsigned", o(|| s(ia.saturating_sub_unsigned(b))));
    p("I.signum", o(|| (s(ia.signum()), ia.is_positive(), ia.is_negative())));
    p("I.saturating_neg", o(|| s(ia.saturating_neg())));
    p("I.op neg", o(|| s(-ia)));
    p("I.abs (profile dependent)", o(|| s(ia.abs())));
    // the extreme values of the type against the (structured) operands of the case: a shortcut keyed on a
    // special operand (MIN, MAX, -1) and a predicate on the other (is_one, is_zero, is_power_of_two ...)
    // meets every generated pattern without any cost to the generator
    let (imin, imax, ineg1, umax) = (I::k_min(), I::k_max(), I::load(&vec![0xffu8; c.0 .0.len()]), U::k_max());
    p("I.MIN checked_div/rem b", o(|| (so(imin.checked_div(ib)), so(imin.checked_rem(ib)))));
    p("I.MIN overflowing_div_euclid/rem_euclid b", o(|| (sp(imin.overflowing_div_euclid(ib)), sp(imin.overflowing_rem_euclid(ib)))));
    p("I.MIN wrapping_mul / checked_mul b", o(|| (s(imin.wrapping_mul(ib)), so(imin.checked_mul(ib)))));
    p("I.b checked_div/rem MIN", o(|| (so(ib.checked_div(imin)), so(ib.checked_rem(imin)))));
    p("I.MAX checked_div/rem b", o(|| (so(imax.checked_div(ib)), so(imax.checked_rem(ib)))));
    p("I.-1 checked_div/rem b", o(|| (so(ineg1.checked_div(ib)), so(ineg1.checked_rem(ib)))));
    p("I.b checked_div/rem -1", o(|| (so(ib.checked_div(ineg1)), so(ib.checked_rem(ineg1)))));
    p("I.MIN checked_next_multiple_of b", o(|| so(imin.checked_next_multiple_of(ib))));
    p("U.MAX checked_div/rem b", o(|| (so(umax.checked_div(b)), so(umax.checked_rem(b)))));
    p("U.MAX overflowing_mul / saturating_mul b", o(|| (sp(umax.overflowing_mul(b)), s(umax.saturating_mul(b)))));
    p("U.MAX checked_ilog b", o(|| umax.checked_ilog(b)));
    p("I.MAX checked_ilog b", o(|| imax.checked_ilog(ib)));
    v
}

fn tuples(shapes: Vec<Shape>) -> BoxedStrategy<Tuple> {
    let sh0 = shapes[0];
    let plain = prop::strategy::Union::new(shapes.iter().map(|&s| gen::pattern_pair(s)));
    // special x structured: one operand a boundary value (MIN, MAX, -1, 0, 1, 2^k ...), the other drawn digit by
    // digit from the extreme-value table of one member's digit size (equal / zero / all-ones digits are common), so
    // that a shortcut keyed on a special operand meets a structured partner
    let special = prop::strategy::Union::new(shapes.iter().map(|&s| {
        (gen::boundary(sh0), prop_oneof![gen::digitwise(s), gen::runs(s), gen::short(s)], any::<bool>()).prop_map(|(a, b, swap)| if swap { (b, a) } else { (a, b) }).boxed()
    }));
    let pats = prop_oneof![5 => plain, 1 => special];
    let third = prop_oneof![3 => gen::pattern(sh0), 2 => (2u64..40).prop_map(move |x| Pat(Z::from_u64(x).to_le_wrapped(sh0.bytes)))];
    let text = prop_oneof![
        4 => (gen::pattern(sh0), 0u8..3, any::<bool>(), prop_oneof![5 => Just(0usize), 2 => 1usize..4, 3 => 0usize..(sh0.bits() as usize + 8)], 0u32..40).prop_map(|(p, sign, upper, zeros, short)| {
            let mut s = match sign { 1 => "+".to_string(), 2 => "-".to_string(), _ => String::new() };
            // redundant leading zeros (up to more than BITS of them), often before a short value:
            // whether a padded numeral is accepted must not depend on the digit type
            s.push_str(&"0".repeat(zeros));
            let z = Z::from_le_unsigned(&p.0);
            let z = if zeros > 3 && short < 30 { z.shr_floor(z.bit_len().saturating_sub(1 + short as u64)) } else { z };
            let body = z.to_str_radix(10);
            s.push_str(&if upper { body.to_uppercase() } else { body });
            Bytes(s.into_bytes())
        }),
        // numerals around the bounds of the type (MAX, MAX + 1 ..., |MIN|, 2^W + a chunk-sized tail): the point at which a
        // chunked parser overflows depends on the digit type, the verdict must not
        3 => (0u8..3, prop_oneof![Just(0u64), Just(1), Just(2)], any::<bool>(), prop_oneof![3 => -3i64..=3, 2 => any::<i64>().prop_map(|x| x % 1_000_000_000_000), 1 => any::<i64>()], 0u32..2).prop_map(move |(sign, half, minus, delta, radix16)| {
            let w = sh0.bits() as u64;
            let base = match half { 0 => Z::pow2(w), 1 => Z::pow2(w - 1), _ => Z::pow2(w).add(&Z::pow2(w - 1)) };
            let z = if minus { base.sub(&Z::from_i64(delta.abs())) } else { base.add(&Z::from_i64(delta.abs())) };
            let z = if z.is_neg() { Z::zero() } else { z };
            let mut s = match sign { 1 => "+".to_string(), 2 => "-".to_string(), _ => String::new() };
            s.push_str(&z.to_str_radix(if radix16 == 1 { 16 } else { 10 }));
            Bytes(s.into_bytes())
        }),
        2 => proptest::collection::vec(prop_oneof![b'0'..=b'9', b'a'..=b'z', b'A'..=b'Z'], 0..12).prop_map(Bytes),
        2 => proptest::collection::vec(any::<u8>(), 0..(2 * sh0.bytes + 3)).prop_map(Bytes),
        1 => proptest::collection::vec(prop_oneof![Just(b'0'), Just(b'1'), Just(b'-'), Just(b'+'), Just(b' '), Just(b'_'), Just(0xc3u8), Just(0xa9u8)], 0..8).prop_map(Bytes),
    ];
    let floats = prop_oneof![
        any::<u64>(),
        (any::<bool>(), 1000u64..1400, any::<u64>()).prop_map(|(s, e, m)| ((s as u64) << 63) | (e << 52) | (m & ((1 << 52) - 1))),
        (any::<bool>(), 100u64..300, any::<u32>()).prop_map(|(s, e, m)| (((s as u64) << 31) | (e << 23) | (m as u64 & ((1 << 23) - 1))) | ((1023 + (e % 40)) << 52)),
    ];
    (pats, third, gen::amount(sh0), prop_oneof![0u32..8, gen::amount(sh0)], any::<u32>(), text, floats)
        .prop_map(|((a, b), c, sh, e, r, t, f)| (a, b, c, sh, e, r, t, f))
        .boxed()
}

// ------------------------------------------------------------------------------------------------
// (b) extension commutes with value-level operations whose exact result is representable in the
//     narrower type (precondition decided on the reference side)
// ------------------------------------------------------------------------------------------------

fn ext_eval<N: Int, W: Int + CastFrom<N>>(c: &(Pat, Pat, u32, u32), obs: &mut Obs) -> Result<(), String> {
    let (a, b): (N, N) = (ld(&c.0), ld(&c.1));
    let (za, zb) = (a.z(), b.z());
    let ext = |x: N| -> W { x.as_::<W>() };
    let (wa, wb) = (ext(a), ext(b));
    // the cast itself is C09's business; here we rely on it denoting the same value
    ck!("ext(a) denotes a", wa.z(), za.clone());
    ck!("ext(b) denotes b", wb.z(), zb.clone());
    let narrow_fits = |z: &Z| fits::<N>(z);
    let mut used = 0;
    let e = za.add(&zb);
    if narrow_fits(&e) {
        used += 1;
        ck!("add commutes with extension", st(&wa.wrapping_add(wb)), st(&ext(a.wrapping_add(b))));
    }
    let e = za.sub(&zb);
    if narrow_fits(&e) {
        used += 1;
        ck!("sub commutes with extension", st(&wa.wrapping_sub(wb)), st(&ext(a.wrapping_sub(b))));
    }
    let e = za.mul(&zb);
    if narrow_fits(&e) {
        used += 1;
        ck!("mul commutes with extension", st(&wa.wrapping_mul(wb)), st(&ext(a.wrapping_mul(b))));
    }
    if !zb.is_zero() && !(N::SIGNED && za == zmin::<N>() && zb == Z::from_i64(-1)) {
        used += 1;
        ck!("div commutes with extension", st(&wa.wrapping_div(wb)), st(&ext(a.wrapping_div(b))));
        ck!("rem commutes with extension", st(&wa.wrapping_rem(wb)), st(&ext(a.wrapping_rem(b))));
    }
    let ex = c.3 % 200;
    if let Some(p) = za.pow_capped(ex, N::W as u64 + 1) {
        if narrow_fits(&p) {
            used += 1;
            ck!("pow commutes with extension", st(&wa.wrapping_pow(ex)), st(&ext(a.wrapping_pow(ex))));
        }
    }
    let sh = c.2 % N::W;
    if narrow_fits(&za.shl(sh as u64)) {
        used += 1;
        ck!("shl commutes with extension", st(&wa.wrapping_shl(sh)), st(&ext(a.wrapping_shl(sh))));
    }
    ck!("comparison commutes with extension", wa.cmp(&wb), a.cmp(&b));
    // decimal printing and parsing
    let text = a.to_string();
    ck!("decimal printing commutes with extension", wa.to_string(), text.clone());
    let parsed_n = text.parse::<N>().ok();
    let parsed_w = text.parse::<W>().ok();
    ck!("decimal parsing commutes with extension", parsed_w.map(|v| st(&v)), parsed_n.map(|v| st(&ext(v))));
    obs.nt_if(used >= 3 && !za.is_zero() && !zb.is_zero());
    obs.label_if(za.is_neg() || zb.is_neg(), "negative operand (sign extension)");
    obs.label_if(N::DIGIT_BITS != W::DIGIT_BITS, "narrow and wide use different digit types");
    Ok(())
}

fn ext_job<N: Int, W: Int + CastFrom<N>>(jobs: &mut Vec<Job>) {
    let sh = N::shape();
    jobs.push(Job::new(format!("extension/{}->{}", N::tname(), W::tname()), move |ctx| {
        // operands weighted towards small magnitudes so that the representability precondition often holds
        let small = (gen::pattern(sh), 0u32..sh.bits()).prop_map(move |(p, k)| {
            let z = Z::from_le_signed(&p.0).shr_floor(k as u64);
            Pat(z.to_le_wrapped(sh.bytes))
        });
        let pair = prop_oneof![2 => gen::pattern_pair(sh), 3 => (small.clone(), small)];
        let cases = ctx.budget(if W::W > 1100 { QUICK / 3 } else { QUICK }, FACTOR);
        ctx.run("ext", cases, (pair, gen::amount(sh), prop_oneof![0u32..6, 0u32..200]).prop_map(|((a, b), s, e)| (a, b, s, e)), ext_eval::<N, W>);
    }));
}

// ------------------------------------------------------------------------------------------------
// (c) constants
// ------------------------------------------------------------------------------------------------

fn constants<U, I>(jobs: &mut Vec<Job>)
where
    U: UInt + Int<I = I>,
    I: SInt + Int<U = U>,
{
    jobs.push(Job::new(format!("constants@{}", U::cfg()), |ctx| {
        ctx.enumerate("consts", "all associated constants of the configuration", 0u32..27, |i: &u32, obs: &mut Obs| {
            obs.nt();
            let w = (U::N as u64) * U::DIGIT_BITS as u64;
            match *i {
                0 => {
                    ck!("U::BITS", U::k_bits() as u64, w);
                    ck!("I::BITS", I::k_bits() as u64, w);
                    ck!("U::BYTES", U::k_bytes() as u64, w / 8);
                    ck!("I::BYTES", I::k_bytes() as u64, w / 8);
                }
                1 => {
                    ck!("U::MIN", U::k_min().z(), Z::zero());
                    ck!("U::MAX", U::k_max().z(), Z::pow2(w).add_i(-1));
                    ck!("I::MIN", I::k_min().z(), Z::pow2(w - 1).neg());
                    ck!("I::MAX", I::k_max().z(), Z::pow2(w - 1).add_i(-1));
                    ck!("U::ZERO", U::k_zero().z(), Z::zero());
                    ck!("I::ZERO", I::k_zero().z(), Z::zero());
                    ck!("U::ONE", U::k_one().z(), Z::one());
                    ck!("I::ONE", I::k_one().z(), Z::one());
                    ck!("Default", (U::default().z(), I::default().z()), (Z::zero(), Z::zero()));
                }
                k @ 2..=12 => {
                    let n = (k - 2) as usize;
                    ck!(format!("U small constant {}", n), U::k_small(n).z(), Z::from_u64(n as u64));
                    if Z::from_u64(n as u64).fits(w, true) {
                        ck!(format!("I small constant {}", n), I::k_small(n).z(), Z::from_u64(n as u64));
                    }
                }
                k => {
                    let n = (k - 12) as usize; // 1..=14 -> only 1..=10 exist
                    if n <= 10 {
                        ck!(format!("I::NEG constant -{}", n), I::k_neg_small(n).z(), Z::from_i64(-(n as i64)));
                    }
                }
            }
            Ok(())
        });
    }));
}

fn aliases(jobs: &mut Vec<Job>) {
    jobs.push(Job::new("constants/aliases", |ctx| {
        ctx.enumerate("aliases", "U128..U8192 / I128..I8192", 0u32..7, |i: &u32, obs: &mut Obs| {
            use bnum::types::*;
            obs.nt();
            macro_rules! a {
                ($bits:literal, $u:ident, $i:ident) => {{
                    ck!(concat!(stringify!($u), "::BITS"), $u::BITS, $bits);
                    ck!(concat!(stringify!($i), "::BITS"), $i::BITS, $bits);
                    // the aliases are exactly the u64-digit types of bits/64 digits (type identity checked by the compiler)
                    let x: bnum::BUint<{ $bits / 64 }> = $u::MAX;
                    let y: bnum::BInt<{ $bits / 64 }> = $i::MIN;
                    ck!(concat!(stringify!($u), "::MAX"), x.z(), Z::pow2($bits).add_i(-1));
                    ck!(concat!(stringify!($i), "::MIN"), y.z(), Z::pow2($bits - 1).neg());
                }};
            }
            match *i {
                0 => a!(128, U128, I128),
                1 => a!(256, U256, I256),
                2 => a!(512, U512, I512),
                3 => a!(1024, U1024, I1024),
                4 => a!(2048, U2048, I2048),
                5 => a!(4096, U4096, I4096),
                _ => a!(8192, U8192, I8192),
            }
            Ok(())
        });
    }));
}

fn main() {
    let mut jobs: Vec<Job> = Vec::new();

    // (a) width groups
    macro_rules! group {
        ($name:literal; ($U0:ty, $I0:ty) $(, ($U:ty, $I:ty))+) => {
            jobs.push(Job::new(concat!("equal_width/", $name), move |ctx| {
                let shapes = vec![<$U0 as Int>::shape() $(, <$U as Int>::shape())+];
                let w = <$U0 as Int>::W;
                // more than 256 digits of the narrowest digit type: few, expensive cases
                let odd = matches!(w, 80 | 112 | 160 | 224 | 384 | 448 | 576);
                let q = if w >= 2000 { QUICK / 12 } else if odd { QUICK / 4 } else if w >= 192 { QUICK / 2 } else { QUICK };
                if w >= 2000 {
                    ctx.shrink_iters = 150; // one evaluation of ~300 operations on 2080 / 4160 bits takes about a second
                }
                ctx.run("ops", ctx.budget(q, FACTOR), tuples(shapes), |c: &Tuple, obs: &mut Obs| {
                    let base = ops_vector::<$U0, $I0>(c);
                    obs.nt_if(c.0 .0.iter().any(|&b| b != 0) && c.1 .0.iter().any(|&b| b != 0));
                    $(
                        let other = ops_vector::<$U, $I>(c);
                        vlib::runner::count_cmp(base.len() as u64);
                        if other.len() != base.len() {
                            panic!("operation tables differ in length");
                        }
                        for (x, y) in base.iter().zip(other.iter()) {
                            if x != y {
                                return Err(format!("{}: {} gives {} but {} gives {}", x.0, <$U0 as Int>::cfg(), x.1, <$U as Int>::cfg(), y.1));
                            }
                        }
                        // As casts between the representations preserve the pattern, both directions
                        let a0: $U0 = ld(&c.0);
                        let a1: $U = ld(&c.0);
                        ck!("As cast between digit types (U)", (st(&a0.as_::<$U>()), st(&a1.as_::<$U0>())), (c.0.clone(), c.0.clone()));
                        let i0: $I0 = ld(&c.0);
                        let i1: $I = ld(&c.0);
                        ck!("As cast between digit types (I)", (st(&i0.as_::<$I>()), st(&i1.as_::<$I0>())), (c.0.clone(), c.0.clone()));
                        ck!("As cast between digit types (U->I, I->U)", (st(&a0.as_::<$I>()), st(&i1.as_::<$U0>())), (c.0.clone(), c.0.clone()));
                    )+
                    obs.note(|| format!("{} operations compared across the group; first: {:?}", base.len(), &base[0]));
                    Ok(())
                });
            }));
        };
    }
    use bnum::*;
    group!("16"; (BUintD8<2>, BIntD8<2>), (BUintD16<1>, BIntD16<1>));
    group!("32"; (BUintD8<4>, BIntD8<4>), (BUintD16<2>, BIntD16<2>), (BUintD32<1>, BIntD32<1>));
    group!("48"; (BUintD8<6>, BIntD8<6>), (BUintD16<3>, BIntD16<3>));
    group!("64"; (BUintD8<8>, BIntD8<8>), (BUintD16<4>, BIntD16<4>), (BUintD32<2>, BIntD32<2>), (BUint<1>, BInt<1>));
    group!("96"; (BUintD8<12>, BIntD8<12>), (BUintD16<6>, BIntD16<6>), (BUintD32<3>, BIntD32<3>));
    group!("128"; (BUintD8<16>, BIntD8<16>), (BUintD16<8>, BIntD16<8>), (BUintD32<4>, BIntD32<4>), (BUint<2>, BInt<2>));
    group!("192"; (BUintD8<24>, BIntD8<24>), (BUintD16<12>, BIntD16<12>), (BUintD32<6>, BIntD32<6>), (BUint<3>, BInt<3>));
    group!("320"; (BUintD8<40>, BIntD8<40>), (BUintD16<20>, BIntD16<20>), (BUintD32<10>, BIntD32<10>), (BUint<5>, BInt<5>));
    // digit counts that leave a remainder after 2-, 4- or 8-digit chunks in one digit type but not in another
    group!("80"; (BUintD8<10>, BIntD8<10>), (BUintD16<5>, BIntD16<5>));
    group!("112"; (BUintD8<14>, BIntD8<14>), (BUintD16<7>, BIntD16<7>));
    group!("160"; (BUintD8<20>, BIntD8<20>), (BUintD16<10>, BIntD16<10>), (BUintD32<5>, BIntD32<5>));
    group!("224"; (BUintD8<28>, BIntD8<28>), (BUintD16<14>, BIntD16<14>), (BUintD32<7>, BIntD32<7>));
    group!("384"; (BUintD8<48>, BIntD8<48>), (BUintD16<24>, BIntD16<24>), (BUintD32<12>, BIntD32<12>), (BUint<6>, BInt<6>));
    group!("448"; (BUintD8<56>, BIntD8<56>), (BUintD16<28>, BIntD16<28>), (BUintD32<14>, BIntD32<14>), (BUint<7>, BInt<7>));
    group!("576"; (BUintD8<72>, BIntD8<72>), (BUintD16<36>, BIntD16<36>), (BUintD32<18>, BIntD32<18>), (BUint<9>, BInt<9>));
    // digit counts above 256 (an index or digit offset narrowed to u8 shows only here)
    group!("2080"; (BUintD8<260>, BIntD8<260>), (BUintD16<130>, BIntD16<130>), (BUintD32<65>, BIntD32<65>));
    group!("4160"; (BUintD16<260>, BIntD16<260>), (BUintD32<130>, BIntD32<130>), (BUint<65>, BInt<65>));

    // (b) extension pairs: same digit type and different digit types, zero extension (U) and sign extension (I)
    macro_rules! ext {
        ($(($NU:ty, $NI:ty) => ($WU:ty, $WI:ty)),* $(,)?) => {$(
            ext_job::<$NU, $WU>(&mut jobs);
            ext_job::<$NI, $WI>(&mut jobs);
        )*};
    }
    ext! {
        (BUintD8<3>, BIntD8<3>) => (BUintD8<5>, BIntD8<5>),
        (BUint<1>, BInt<1>) => (BUint<2>, BInt<2>),
        (BUint<2>, BInt<2>) => (BUint<128>, BInt<128>),
        (BUintD8<3>, BIntD8<3>) => (BUintD32<1>, BIntD32<1>),
        (BUintD16<3>, BIntD16<3>) => (BUint<1>, BInt<1>),
        (BUintD32<3>, BIntD32<3>) => (BUint<3>, BInt<3>),
        (BUintD8<17>, BIntD8<17>) => (BUint<3>, BInt<3>),
        (BUintD8<1>, BIntD8<1>) => (BUintD16<1>, BIntD16<1>),
        (BUintD32<1>, BIntD32<1>) => (BUintD8<5>, BIntD8<5>),
    }

    // (c) constants for all 51 configurations, and the aliases
    macro_rules! k {
        ($U:ty, $I:ty) => {
            constants::<$U, $I>(&mut jobs);
        };
    }
    checks::for_all_cfgs!(k);
    aliases(&mut jobs);

    runner::main(
        Property {
            id: "C16",
            rule: "(a) For each of the width groups {16, 32, 48, 64, 96, 128, 192, 320, 2080, 4160} (2-4 digit types each; the last two have more than 256 digits of the narrowest digit type and a twelfth of the budget) and, at a quarter of the budget, {80, 112, 160, 224, 384, 448, 576} (digit counts 5, 7, 9, 10, 14, 18, 20, 28, ... that leave a remainder after 2-, 4- or 8-digit chunks in one digit type but not in another) one operand tuple (three W-bit patterns structured for the 8-bit and for the widest digit size - a sixth of the pairs put a boundary value (MIN, MAX, -1, 0, 1, 2^k ...) against a digit-wise structured partner -, a shift/rotate amount, an exponent, a radix, a text / byte string - decimal numerals with up to BITS + 8 redundant leading zeros and numerals around 2^W, 2^(W-1) and 1.5 * 2^W among them -, float bits) is loaded into every member and a table of ~300 operations (among them the extreme values MIN, MAX, -1 of the type divided / multiplied by the structured operands and vice versa) (every overflow mode of add/sub/mul/div/rem, shifts, rotations, bit operations, comparison, pow, ilog, radix output, parsing of strings and digit slices, byte slices, all eight formatting traits with three flag specifications, casts to f32/f64/every primitive and from floats, operators with their profile-dependent panic outcome) is evaluated in each; results are normalised to strings ('Panicked' for a panic; the error kind of long invalid strings, which the property leaves open, to 'Err(any)') and must be identical across the group, and As casts between the members must preserve the pattern. Differential oracle, no reference model. (b) 18 (narrow, wide) pairs (same and different digit types, zero- and sign-extension): whenever the exact result is representable in the narrow type (decided by the reference integer), add/sub/mul/div/rem/pow/shl/cmp/decimal print/decimal parse on the extended operands equals the extension of the narrow result. (c) BITS, BYTES, MIN, MAX, ZERO, ONE..TEN, NEG_ONE..NEG_TEN for all 102 types and the aliases U128..I8192: enumerated completely. NON-TRIVIAL: (a) both main operands non-zero; (b) at least three operations had a representable exact result with non-zero operands; (c) every constant. distinct = distinct (profile, job, inputs) by 64-bit hash.",
            assumptions: &[
                "digits()/from_digits()/to_bits()/from_bits() are the trusted observation channel",
                "(a) is purely differential: a defect common to all digit types is invisible here and is the business of C01-C15",
            ],
        },
        jobs,
        &[("refint", vlib::refint::self_test)],
    );
}
