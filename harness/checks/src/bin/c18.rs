//! C18 — num_traits / num_integer implementations honour the trait contracts (DESIGN.md §4 C18)

use checks::api::{width_scale, Int, SInt, UInt};
use checks::common::*;
use checks::for_all_cfgs;
use num_integer::{Integer, Roots};
use num_traits::ops::overflowing::{OverflowingAdd, OverflowingSub};
use num_traits::{
    Bounded, CheckedAdd, CheckedDiv, CheckedEuclid, CheckedMul, CheckedNeg, CheckedRem, CheckedShl, CheckedShr, CheckedSub, Euclid, MulAdd, MulAddAssign, Num, One, Pow, PrimInt,
    Saturating, SaturatingAdd, SaturatingMul, SaturatingSub, Signed, WrappingAdd, WrappingMul, WrappingNeg, WrappingShl, WrappingShr, WrappingSub, Zero,
};
use proptest::prelude::*;
use vlib::gen::{self, Shape};
use vlib::runner::{self, outcome, Job, Obs, Outcome, Property};
use vlib::{ck, Pat, Z};

const QUICK: u32 = 800;
const FACTOR: u32 = 20;

use checks::siblings::{forwarder_cases, Group, NT};

fn ret<T: Int>(z: &Z) -> Outcome<Pat> {
    Outcome::Returned(pz::<T>(z))
}

/// Integer::{div_floor, mod_floor, div_rem, div_mod_floor, div_ceil, is_multiple_of, divides, is_even, is_odd}
fn eval_integer_div<T: NT>(c: &(Pat, Pat), obs: &mut Obs) -> Result<(), String> {
    let (a, b): (T, T) = (ld(&c.0), ld(&c.1));
    let (za, zb) = (a.z(), b.z());
    ck!("is_even", Integer::is_even(&a), !za.is_odd());
    ck!("is_odd", Integer::is_odd(&a), za.is_odd());
    if zb.is_zero() || (T::SIGNED && za == zmin::<T>() && zb == Z::from_i64(-1)) {
        return Ok(());
    }
    let (qf, rf) = za.divrem_floor(&zb);
    let (qt, rt) = za.divrem_trunc(&zb);
    let (qc, _) = za.divrem_ceil(&zb);
    let differs = qf != qt;
    obs.nt_if(differs);
    obs.label_if(differs, "operands of opposite sign with non-zero remainder (floor != trunc)");
    obs.label_if(!rt.is_zero(), "non-zero remainder");
    ck!("Integer::div_floor", oc(|| Integer::div_floor(&a, &b)), ret::<T>(&qf));
    ck!("Integer::mod_floor", oc(|| Integer::mod_floor(&a, &b)), ret::<T>(&rf));
    ck!("Integer::div_rem (truncating)", outcome(|| { let (q, r) = Integer::div_rem(&a, &b); (st(&q), st(&r)) }), Outcome::Returned((pz::<T>(&qt), pz::<T>(&rt))));
    ck!("Integer::div_mod_floor", outcome(|| { let (q, r) = Integer::div_mod_floor(&a, &b); (st(&q), st(&r)) }), Outcome::Returned((pz::<T>(&qf), pz::<T>(&rf))));
    if fits::<T>(&qc) {
        ck!("Integer::div_ceil", oc(|| Integer::div_ceil(&a, &b)), ret::<T>(&qc));
    }
    ck!("Integer::is_multiple_of", outcome(|| Integer::is_multiple_of(&a, &b)), Outcome::Returned(rt.is_zero()));
    #[allow(deprecated)]
    {
        ck!("Integer::divides", outcome(|| Integer::divides(&a, &b)), Outcome::Returned(rt.is_zero()));
    }
    // Euclid / CheckedEuclid
    let (qe, re) = za.divrem_euclid(&zb);
    ck!("Euclid::div_euclid", oc(|| Euclid::div_euclid(&a, &b)), ret::<T>(&qe));
    ck!("Euclid::rem_euclid", oc(|| Euclid::rem_euclid(&a, &b)), ret::<T>(&re));
    ck!("CheckedEuclid::checked_div_euclid", CheckedEuclid::checked_div_euclid(&a, &b).map(|v| st(&v)), Some(pz::<T>(&qe)));
    ck!("CheckedEuclid::checked_rem_euclid", CheckedEuclid::checked_rem_euclid(&a, &b).map(|v| st(&v)), Some(pz::<T>(&re)));
    obs.note(|| format!("a={:?} b={:?} floor=({:?},{:?}) trunc=({:?},{:?})", za, zb, qf, rf, qt, rt));
    Ok(())
}

/// gcd / lcm / gcd_lcm whenever representable
fn eval_gcd<T: NT>(c: &(Pat, Pat), obs: &mut Obs) -> Result<(), String> {
    let (a, b): (T, T) = (ld(&c.0), ld(&c.1));
    let (za, zb) = (a.z(), b.z());
    let g = za.gcd(&zb);
    let db = T::shape().digit_bytes;
    obs.nt_if(sig_digits(&pz::<T>(&za.abs()).0, db) >= 2 && sig_digits(&pz::<T>(&zb.abs()).0, db) >= 2);
    obs.label_if(g > Z::one(), "non-trivial gcd");
    obs.label_if(za.is_neg() || zb.is_neg(), "negative operand");
    obs.label_if(za.is_zero() || zb.is_zero(), "zero operand");
    let gfits = fits::<T>(&g);
    if gfits {
        // gcd is an iteration too: time-boxed like the roots (an endless loop is undecided, the other cases still run)
        match runner::outcome_timed(30, move || st(&Integer::gcd(&a, &b))) {
            Some(got) => ck!("Integer::gcd", got, ret::<T>(&g)),
            None => return Ok(()),
        }
        let l = if g.is_zero() { Z::zero() } else { za.mul(&zb).abs().divrem_trunc(&g).0 };
        if fits::<T>(&l) && !(T::SIGNED && (za == zmin::<T>() || zb == zmin::<T>())) {
            obs.label("lcm representable");
            ck!("Integer::lcm", oc(|| Integer::lcm(&a, &b)), ret::<T>(&l));
            ck!("Integer::gcd_lcm", outcome(|| { let (x, y) = Integer::gcd_lcm(&a, &b); (st(&x), st(&y)) }), Outcome::Returned((pz::<T>(&g), pz::<T>(&l))));
        }
    }
    obs.note(|| format!("a={:?} b={:?} gcd={:?}", za, zb, g));
    Ok(())
}

/// operands for gcd: (g*x, g*y) with small cofactors, powers of two, zero, equal
fn gcd_pairs(sh: Shape, signed: bool) -> BoxedStrategy<(Pat, Pat)> {
    let w = sh.bits() as u64;
    let maxbits = if signed { w - 1 } else { w };
    let wrap = move |z: Z| Pat(z.to_le_wrapped(sh.bytes));
    let built = (gen::pattern(sh), 1u64..2000, 1u64..2000, 0u32..sh.bits(), any::<bool>(), any::<bool>(), 0u32..64, 0u32..64).prop_map(move |(g, x, y, shrink, na, nb, ta, tb)| {
        // g small enough that g*x, g*y fit
        let g = Z::from_le_unsigned(&g.0).mod_2k(maxbits.saturating_sub(12 + (shrink as u64 % maxbits.max(1))).max(1));
        let g = if g.is_zero() { Z::one() } else { g };
        let a = g.mul(&Z::from_u64(x)).shl((ta as u64) % 8);
        let b = g.mul(&Z::from_u64(y)).shl((tb as u64) % 8);
        let a = if a.bit_len() > maxbits { g.clone() } else { a };
        let b = if b.bit_len() > maxbits { g.clone() } else { b };
        (wrap(if na && signed { a.neg() } else { a }), wrap(if nb && signed { b.neg() } else { b }))
    });
    prop_oneof![
        5 => built,
        2 => gen::pattern_pair(sh),
        1 => (gen::pattern(sh), 0u8..4).prop_map(move |(a, sel)| match sel {
            0 => (a.clone(), a),
            1 => (a, Pat(vec![0u8; sh.bytes])),
            2 => (Pat(vec![0u8; sh.bytes]), a),
            _ => (a.clone(), wrap(Z::from_le_unsigned(&a.0).shl(3))),
        }),
        1 => (0u32..sh.bits(), 0u32..sh.bits()).prop_map(move |(i, j)| (wrap(Z::pow2(i as u64)), wrap(Z::pow2(j as u64)))),
        // the extreme values against the units and small values (MIN has no representable negation)
        1 => (0u8..5, 0u8..7, any::<bool>()).prop_map(move |(x, y, swap)| {
            let ext = |k: u8| match k {
                0 => if signed { Z::pow2(maxbits).neg() } else { Z::pow2(maxbits).add_i(-1) },
                1 => if signed { Z::pow2(maxbits).neg().add_i(1) } else { Z::pow2(maxbits - 1) },
                2 => Z::pow2(maxbits).add_i(-1),
                3 => if signed { Z::from_i64(-1) } else { Z::one() },
                _ => Z::pow2(maxbits - 1),
            };
            let small = |k: u8| match k {
                0 => Z::from_i64(if signed { -1 } else { 1 }),
                1 => Z::one(),
                2 => Z::from_i64(if signed { -2 } else { 2 }),
                3 => Z::from_i64(3),
                4 => Z::zero(),
                5 => Z::pow2(maxbits - 1),
                _ => Z::pow2(maxbits).add_i(-1),
            };
            let (a, b) = (wrap(ext(x)), wrap(small(y)));
            if swap { (b, a) } else { (a, b) }
        }),
    ]
    .boxed()
}

/// roots: x in {r^n, r^n +- 1, (r+1)^n - 1, patterns}, below and above 2^128; degrees incl. large ones
fn root_cases(sh: Shape, signed: bool) -> BoxedStrategy<(Pat, u32)> {
    let w = sh.bits() as u64;
    let maxbits = if signed { w - 1 } else { w };
    let wrap = move |z: Z| Pat(z.to_le_wrapped(sh.bytes));
    let degrees = prop_oneof![
        6 => prop_oneof![Just(1u32), Just(2), Just(3), Just(4), Just(5), Just(7), Just(8), Just(16), Just(40), Just(63), Just(64), Just(65)],
        2 => 1u32..80,
        2 => (1u32..=sh.bits() + 2),
        1 => prop_oneof![Just(1u32 << 31), Just(u32::MAX), Just(u32::MAX - 1), Just(sh.bits()), Just(sh.bits() - 1), Just(sh.bits() + 1)],
    ];
    let exact = (degrees.clone(), gen::pattern(sh), -1i64..=1, any::<bool>()).prop_map(move |(n, r, e, neg)| {
        // r with about maxbits / n bits so that r^n is near the top of the type
        let rb = (maxbits / n as u64).max(1);
        let r = Z::from_le_unsigned(&r.0).mod_2k(rb);
        let x = r.pow_capped(n, maxbits).unwrap_or_else(|| Z::pow2(maxbits).add_i(-1)).add_i(e);
        let x = if x.is_neg() { Z::zero() } else if x.bit_len() > maxbits { Z::pow2(maxbits).add_i(-1) } else { x };
        (wrap(if neg && signed && n % 2 == 1 { x.neg() } else { x }), n)
    });
    let general = (gen::pattern(sh), degrees.clone(), 0u32..sh.bits()).prop_map(move |(p, n, shrink)| {
        let z = Z::from_le(&p.0, signed);
        let z = if shrink % 3 == 0 { z.shr_floor((shrink as u64) % w) } else { z };
        let z = if z.is_neg() && n % 2 == 0 { z.neg() } else { z };
        // MIN has no representable negation
        let z = if !z.fits(w, signed) { Z::max_of(w, signed) } else { z };
        (wrap(z), n)
    });
    // strictly between two consecutive powers: x = r^n + delta, 0 <= delta < (r+1)^n - r^n, with r of any
    // size (structured pattern, 2^k, 2^k * small) - the leading bits of x are then those of an exact power
    let between = (degrees.clone(), gen::pattern(sh), 0u64..maxbits, 0u8..4, gen::pattern(sh), 0u8..5, any::<bool>()).prop_map(move |(n, r, rbits, rmode, d, dmode, neg)| {
        let rb = (maxbits / n as u64).max(1);
        let bits = 1 + rbits % rb;
        let r = match rmode {
            0 => Z::pow2(bits - 1),
            1 => Z::pow2(bits - 1).mul(&Z::from_u64(1 + (r.0[0] as u64 % 7))),
            _ => Z::from_le_unsigned(&r.0).mod_2k(bits - 1).add(&Z::pow2(bits - 1)),
        };
        let top = Z::pow2(maxbits).add_i(-1);
        let lo = match r.pow_capped(n, maxbits) { Some(v) => v, None => return (wrap(top), n) };
        let hi = r.add_i(1).pow_capped(n, maxbits).unwrap_or_else(|| Z::pow2(maxbits)); // exclusive
        let gap = hi.sub(&lo);
        let delta = match dmode {
            0 => gap.add_i(-1),
            1 => gap.shr_floor(1),
            2 => Z::from_le_unsigned(&d.0).divrem_trunc(&gap).1.shr_floor((d.0[0] % 64) as u64),
            _ => Z::from_le_unsigned(&d.0).divrem_trunc(&gap).1,
        };
        let x = lo.add(&delta);
        let x = if x.bit_len() > maxbits { top } else { x };
        (wrap(if neg && signed && n % 2 == 1 { x.neg() } else { x }), n)
    });
    // the extreme values with the degrees for which the root is the value itself or has magnitude 1
    let extremes = (prop_oneof![Just(1u32), Just(1), Just(3), Just(5), Just(sh.bits() - 1), Just(sh.bits() + 1), Just(u32::MAX)], 0u8..6).prop_map(move |(n, which)| {
        let z = match which {
            0 => if signed { Z::pow2(maxbits).neg() } else { Z::zero() },
            1 => if signed { Z::pow2(maxbits).neg().add_i(1) } else { Z::one() },
            2 => if signed { Z::from_i64(-1) } else { Z::from_i64(2) },
            3 => Z::pow2(maxbits).add_i(-1),
            4 => Z::zero(),
            _ => Z::one(),
        };
        let n = if z.is_neg() && n % 2 == 0 { n - 1 } else { n };
        (wrap(z), n)
    });
    let top = (degrees, 0u64..4).prop_map(move |(n, k)| (wrap(Z::pow2(maxbits).add_i(-1 - k as i64)), n));
    prop_oneof![5 => exact, 4 => between, 4 => general, 1 => top, 1 => extremes].boxed()
}

fn eval_roots<T: NT>(c: &(Pat, u32), obs: &mut Obs) -> Result<(), String> {
    let x: T = ld(&c.0);
    let n = c.1;
    let zx = x.z();
    if zx.is_neg() && n % 2 == 0 {
        return Ok(()); // even roots of negative numbers are documented to panic
    }
    let ax = zx.abs();
    let newton = ax.bit_len() > 128;
    obs.nt_if(newton || n >= 4);
    obs.label_if(newton, "x >= 2^128 (Newton iteration path)");
    obs.label_if(!newton, "x < 2^128 (primitive path)");
    obs.label_if(n >= 4, "degree >= 4");
    obs.label_if(n as u64 >= ax.bit_len() && !ax.is_zero(), "degree >= bit length (root is 1)");
    obs.label_if(zx.is_neg(), "negative x, odd degree");
    // verify r^n <= |x| < (r+1)^n on the value returned (uniqueness makes this a complete oracle)
    let check = |what: &str, got: Outcome<T>, deg: u32| -> Result<(), String> {
        let r = match got {
            Outcome::Returned(r) => r.z(),
            Outcome::Panic(m) => return Err(format!("{what}: panicked ({m}) for x={:?}, n={deg}", zx)),
        };
        vlib::runner::count_cmp(1);
        let ar = r.abs();
        let cap = ax.bit_len() + 1;
        let lo_ok = ar.pow_capped(deg, cap).map_or(false, |p| p <= ax);
        let hi_ok = ar.add_i(1).pow_capped(deg, cap).map_or(true, |p| p > ax);
        let sign_ok = r.is_zero() || r.is_neg() == zx.is_neg();
        if !(lo_ok && hi_ok && sign_ok) {
            return Err(format!("{what}: x={:?} n={deg}: returned {:?}, which is not the integer root (r^n <= |x|: {lo_ok}, |x| < (r+1)^n: {hi_ok}, sign: {sign_ok})", zx, r));
        }
        Ok(())
    };
    // the roots are fixed-point iterations: a defect can make them loop for ever. Time-boxed (a root takes
    // milliseconds); a call that does not return is undecided and the remaining cases still run.
    let timed = |what: &str, got: Option<Outcome<T>>, deg: u32| -> Result<(), String> {
        match got {
            Some(o) => check(what, o, deg),
            None => Ok(()),
        }
    };
    timed("Roots::nth_root", runner::outcome_timed(30, move || Roots::nth_root(&x, n)), n)?;
    if !zx.is_neg() {
        timed("Roots::sqrt", runner::outcome_timed(30, move || Roots::sqrt(&x)), 2)?;
    }
    timed("Roots::cbrt", runner::outcome_timed(30, move || Roots::cbrt(&x)), 3)?;
    obs.note(|| format!("x={:?} n={}", zx, n));
    Ok(())
}

fn eval_signed<I: NT + SInt + Signed>(c: &(Pat, Pat), obs: &mut Obs) -> Result<(), String> {
    let (a, b): (I, I) = (ld(&c.0), ld(&c.1));
    let (za, zb) = (a.z(), b.z());
    obs.nt_if(za.is_neg() || zb.is_neg());
    if fits::<I>(&za.abs()) {
        ck!("Signed::abs", oc(|| Signed::abs(&a)), ret::<I>(&za.abs()));
    }
    let d = za.sub(&zb);
    if fits::<I>(&d) {
        let e = if d.is_neg() { Z::zero() } else { d };
        ck!("Signed::abs_sub", oc(|| Signed::abs_sub(&a, &b)), ret::<I>(&e));
    }
    ck!("Signed::signum", oc(|| Signed::signum(&a)), ret::<I>(&Z::from_i64(za.signum() as i64)));
    ck!("Signed::is_positive", Signed::is_positive(&a), za.is_pos());
    ck!("Signed::is_negative", Signed::is_negative(&a), za.is_neg());
    Ok(())
}

/// PrimInt incl. signed_/unsigned_ shifts, Bounded, Zero/One, Num, Pow, MulAdd, forwarders = inherent methods
fn eval_forwarders<T: NT>(c: &(Pat, Pat, Pat, u32), obs: &mut Obs) -> Result<(), String> {
    checks::siblings::nt_forwarders::<T>(Group::All, c, obs)
}

fn div_pairs(sh: Shape, signed: bool) -> BoxedStrategy<(Pat, Pat)> {
    let w = sh.bits() as u64;
    let small_div = (gen::pattern(sh), prop_oneof![Just(1i64), Just(-1), Just(2), Just(-2), Just(3), Just(-3), Just(7), Just(-7), Just(10), -100i64..100]).prop_map(move |(a, d)| {
        let d = if signed { d } else { d.abs() };
        (a, Pat(Z::from_i64(d).to_le_wrapped(sh.bytes)))
    });
    let shaped = (gen::pattern(sh), gen::pattern(sh), 0u32..sh.bits()).prop_map(move |(a, d, k)| {
        // divisor of smaller magnitude so that quotients are non-trivial
        let zd = Z::from_le(&d.0, signed).shr_floor((k as u64) % w);
        (a, Pat(zd.to_le_wrapped(sh.bytes)))
    });
    prop_oneof![3 => gen::pattern_pair(sh), 3 => small_div, 4 => shaped].boxed()
}

fn jobs_for<U, I>(jobs: &mut Vec<Job>)
where
    U: UInt + Int<I = I> + NT,
    I: SInt + Int<U = U> + NT + Signed,
{
    let sh: Shape = U::shape();
    let sc = width_scale(U::W);
    let q = move |base: u32| ((base as f64 * sc).ceil() as u32).max(30);
    jobs.push(Job::new(job_name::<U>("integer/u"), move |ctx| {
        ctx.run("div", ctx.budget(q(QUICK), FACTOR), div_pairs(sh, false), eval_integer_div::<U>);
        ctx.run("gcd", ctx.budget(q(QUICK / 2), FACTOR), gcd_pairs(sh, false), eval_gcd::<U>);
    }));
    jobs.push(Job::new(job_name::<U>("integer/i"), move |ctx| {
        ctx.run("div", ctx.budget(q(QUICK), FACTOR), div_pairs(sh, true), eval_integer_div::<I>);
        ctx.run("gcd", ctx.budget(q(QUICK / 2), FACTOR), gcd_pairs(sh, true), eval_gcd::<I>);
        ctx.run("signed", ctx.budget(q(QUICK / 2), FACTOR), gen::pattern_pair(sh), eval_signed::<I>);
    }));
    jobs.push(Job::new(job_name::<U>("roots"), move |ctx| {
        ctx.run("u", ctx.budget(q(QUICK), FACTOR), root_cases(sh, false), eval_roots::<U>);
        ctx.run("i", ctx.budget(q(QUICK), FACTOR), root_cases(sh, true), eval_roots::<I>);
    }));
    jobs.push(Job::new(job_name::<U>("forwarders"), move |ctx| {
        let s = || forwarder_cases(sh);
        ctx.run("u", ctx.budget(q(QUICK / 2), FACTOR), s(), eval_forwarders::<U>);
        ctx.run("i", ctx.budget(q(QUICK / 2), FACTOR), s(), eval_forwarders::<I>);
    }));
}

/// differential against num-integer's own impls for the primitive of equal width
fn prim_differential(jobs: &mut Vec<Job>) {
    macro_rules! twin {
        ($B:ty, $P:ty, $signed:expr) => {
            jobs.push(Job::new(format!("prim_differential/{}~{}", <$B as Int>::tname(), stringify!($P)), |ctx| {
                let sh = <$B as Int>::shape();
                ctx.run("twin", ctx.budget(QUICK, FACTOR), (div_pairs(sh, $signed), 1u32..70), |c: &((Pat, Pat), u32), obs: &mut Obs| {
                    let (a, b): ($B, $B) = (ld(&c.0 .0), ld(&c.0 .1));
                    let pa = <$P>::from_le_bytes(c.0 .0 .0.clone().try_into().unwrap());
                    let pb = <$P>::from_le_bytes(c.0 .1 .0.clone().try_into().unwrap());
                    let n = c.1;
                    obs.nt();
                    let pp = |f: &dyn Fn() -> $P| -> Outcome<Pat> { vlib::runner::outcome_here(|| f()).map(|v| Pat(v.to_le_bytes().to_vec())) };
                    let overflow_case = pb == 0 || ($signed && pa == <$P>::MIN && (pb as i128) == -1);
                    if !overflow_case {
                        ck!("div_floor vs primitive", oc(|| Integer::div_floor(&a, &b)), pp(&|| Integer::div_floor(&pa, &pb)));
                        ck!("mod_floor vs primitive", oc(|| Integer::mod_floor(&a, &b)), pp(&|| Integer::mod_floor(&pa, &pb)));
                        ck!("div_rem vs primitive", oc(|| Integer::div_rem(&a, &b).0), pp(&|| Integer::div_rem(&pa, &pb).0));
                        ck!("div_rem.1 vs primitive", oc(|| Integer::div_rem(&a, &b).1), pp(&|| Integer::div_rem(&pa, &pb).1));
                    }
                    if !($signed && (pa == <$P>::MIN || pb == <$P>::MIN)) {
                        ck!("gcd vs primitive", oc(|| Integer::gcd(&a, &b)), pp(&|| Integer::gcd(&pa, &pb)));
                    }
                    // (num-integer's own nth_root negates MIN and overflows; the primitive is no oracle there)
                    if !($signed && (pa as i128) < 0 && n % 2 == 0) && !($signed && pa == <$P>::MIN) {
                        ck!("nth_root vs primitive", oc(|| Roots::nth_root(&a, n)), pp(&|| Roots::nth_root(&pa, n)));
                    }
                    Ok(())
                });
            }));
        };
    }
    twin!(bnum::BUintD8<8>, u64, false);
    twin!(bnum::BIntD8<8>, i64, true);
    twin!(bnum::BUint<1>, u64, false);
    twin!(bnum::BInt<1>, i64, true);
    twin!(bnum::BUintD32<4>, u128, false);
    twin!(bnum::BIntD16<8>, i128, true);
    twin!(bnum::BUint<2>, u128, false);
    twin!(bnum::BInt<2>, i128, true);
    twin!(bnum::BUintD8<1>, u8, false);
    twin!(bnum::BIntD8<1>, i8, true);
    twin!(bnum::BIntD16<2>, i32, true);
}

fn main() {
    let mut jobs = Vec::new();
    macro_rules! add {
        ($U:ty, $I:ty) => {
            jobs_for::<$U, $I>(&mut jobs);
        };
    }
    for_all_cfgs!(add);
    prim_differential(&mut jobs);
    runner::main(
        Property {
            id: "C18",
            rule: "All methods are called through the traits (UFCS). Division pairs: structured patterns, small divisors of both signs, divisors of reduced magnitude; gcd/lcm: (g*x, g*y) with small cofactors and shared powers of two, equal operands, zero, powers of two, the extreme values MIN / MIN+1 / MAX / -1 / 2^(W-2) against +-1, +-2, 3, 0 and MAX; roots: x in {r^n, r^n +- 1, r^n + delta strictly between consecutive powers (r = 2^k, 2^k * small or a structured pattern of any size; delta = gap-1, gap/2, uniform, small), top of the range, MIN / MIN+1 / -1 / MAX / 0 / 1 with degrees {1, 3, 5, BITS-1, BITS+1, u32::MAX}, structured patterns} below and above 2^128 with degrees {1, 2, 3, 4, 5, 7, 8, 16, 40, 63, 64, 65, uniform < 80, uniform <= BITS + 2, BITS-1, BITS, BITS+1, 2^31, u32::MAX}, negative x with odd degrees. Oracle: reference integer (floor division with the remainder taking the divisor's sign, truncating div_rem, Euclid, gcd >= 0, lcm = |a*b|/gcd when representable); roots are VERIFIED on the returned value (r^n <= |x| < (r+1)^n, sign preserved), which is a complete oracle by uniqueness; signed_/unsigned_ shifts against arithmetic / logical shifts of the pattern; MulAdd when representable; Bounded/Zero/One/Num/Pow and the Checked*/Wrapping*/Saturating*/Overflowing* forwarders against the inherent methods; a panic is a violation whenever the result is representable. At 8/32/64/128 bits num-integer's own impls for the primitive of equal width are a second oracle. NON-TRIVIAL: div_floor/mod_floor with operands of opposite sign and non-zero remainder; roots with x >= 2^128 or degree >= 4; gcd with both operands >= 2 digits; every forwarder case. distinct = distinct (profile, job, inputs) by 64-bit hash.",
            assumptions: &[
                "a root that does not return within 30 s is undecided (exit 2), never a violation; the other cases still run",
                "gcd/lcm whose value is unrepresentable, even roots of negative numbers, degree 0, is_multiple_of(0), NumCast::from and (MIN, -1) are outside the property",
                "the arithmetic forwarders are compared with the inherent methods, whose own correctness is C01-C08",
            ],
        },
        jobs,
        &[("refint", vlib::refint::self_test)],
    );
}
