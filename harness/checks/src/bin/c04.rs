//! C04 — panics occur exactly where the primitive integers panic, per build mode (DESIGN.md §4 C04)
//! Built and run in both profiles: `dbg` (debug assertions on) and `rel` (off).

use checks::api::{width_scale, Int, SInt, ShiftPrims, UInt};
use checks::common::*;
use checks::for_all_cfgs;
use proptest::prelude::*;
use vlib::gen::{self, Digit, Shape};
use vlib::runner::{self, outcome, Job, Obs, Outcome, Property};
use vlib::{ck, Pat, Z};

const QUICK: u32 = 1000;
const FACTOR: u32 = 20;
const DBG: bool = cfg!(debug_assertions);

/// expected outcome of an operator / unsuffixed method whose exact result is `e`
fn arith_expect<T: Int>(e: &Z) -> Outcome<Pat> {
    if fits::<T>(e) || !DBG {
        Outcome::Returned(pz::<T>(e))
    } else {
        Outcome::Panic(String::new())
    }
}
fn lab<T: Int>(obs: &mut Obs, e: &Z) {
    let over = !fits::<T>(e);
    obs.nt_if(over);
    obs.label_if(over && DBG, "dbg: exact result unrepresentable -> panic");
    obs.label_if(over && !DBG, "rel: exact result unrepresentable -> wrapped value");
}

fn eval_arith<T: Int>(c: &(Pat, Pat), obs: &mut Obs) -> Result<(), String> {
    let (a, b): (T, T) = (ld(&c.0), ld(&c.1));
    let (za, zb) = (a.z(), b.z());
    for (name, e, got, twin) in [
        ("+", za.add(&zb), oc(|| a + b), oc(|| a.c_add(b))),
        ("-", za.sub(&zb), oc(|| a - b), oc(|| a.c_sub(b))),
        ("*", za.mul(&zb), oc(|| a * b), oc(|| a.c_mul(b))),
    ] {
        lab::<T>(obs, &e);
        ck!(format!("operator {}", name), got, arith_expect::<T>(&e));
        ck!(format!("const twin of {}", name), twin, arith_expect::<T>(&e));
    }
    Ok(())
}

fn eval_neg_abs<I: SInt>(c: &Pat, obs: &mut Obs) -> Result<(), String> {
    let a: I = ld(c);
    let za = a.z();
    let e = za.neg();
    lab::<I>(obs, &e);
    ck!("unary -", oc(|| -a), arith_expect::<I>(&e));
    ck!("neg (const twin)", oc(|| a.c_neg()), arith_expect::<I>(&e));
    let e = za.abs();
    lab::<I>(obs, &e);
    ck!("abs", oc(|| a.abs()), arith_expect::<I>(&e));
    Ok(())
}

fn eval_pow_nmo<T: Int>(c: &(Pat, Pat, u32), obs: &mut Obs) -> Result<(), String> {
    let (a, b): (T, T) = (ld(&c.0), ld(&c.1));
    let (za, zb) = (a.z(), b.z());
    let e = c.2;
    let w = T::W as u64;
    // pow: exact if small enough, otherwise the wrapped value comes from modular exponentiation
    let exact = za.pow_capped(e, w + 1);
    let over = exact.as_ref().map_or(true, |p| !fits::<T>(p));
    obs.nt_if(over);
    obs.label_if(over && DBG, "dbg: pow overflow -> panic");
    obs.label_if(over && !DBG, "rel: pow overflow -> wrapped value");
    let exp = if over && DBG { Outcome::Panic(String::new()) } else { Outcome::Returned(pz::<T>(&za.pow_mod_2k(e, w))) };
    ck!("pow", oc(|| a.pow(e)), exp);
    if !zb.is_zero() {
        let qc = za.divrem_ceil(&zb).0;
        let m = qc.mul(&zb);
        lab::<T>(obs, &m);
        ck!("next_multiple_of", oc(|| a.next_multiple_of(b)), arith_expect::<T>(&m));
    }
    Ok(())
}

fn eval_npo2<U: UInt>(c: &Pat, obs: &mut Obs) -> Result<(), String> {
    let a: U = ld(c);
    let z = a.z();
    let j = if z.is_zero() { 0 } else if z.trailing_zeros() == Some(z.bit_len() - 1) { z.bit_len() - 1 } else { z.bit_len() };
    let fits_ = j < U::W as u64;
    obs.nt_if(!fits_);
    obs.label_if(!fits_ && DBG, "dbg: next_power_of_two overflow -> panic");
    obs.label_if(!fits_ && !DBG, "rel: next_power_of_two overflow -> 0");
    let exp = if fits_ {
        Outcome::Returned(pz::<U>(&Z::pow2(j)))
    } else if DBG {
        Outcome::Panic(String::new())
    } else {
        Outcome::Returned(pz::<U>(&Z::zero()))
    };
    ck!("next_power_of_two", oc(|| a.next_power_of_two()), exp);
    Ok(())
}

/// shift amounts as i128; every primitive amount type that can hold the amount is exercised
fn shift_amounts(sh: Shape) -> BoxedStrategy<i128> {
    let w = sh.bits() as i128;
    prop_oneof![
        3 => prop_oneof![Just(0i128), Just(1), Just(w - 1), Just(w), Just(w + 1), Just(2 * w), Just(2 * w - 1)],
        2 => prop_oneof![Just(-1i128), Just(-2), Just(-w), Just(i8::MIN as i128), Just(i16::MIN as i128), Just(i32::MIN as i128), Just(i64::MIN as i128), Just(i128::MIN)],
        2 => prop_oneof![Just(i8::MAX as i128), Just(u8::MAX as i128), Just(i16::MAX as i128), Just(u16::MAX as i128), Just(i32::MAX as i128), Just(u32::MAX as i128), Just(u32::MAX as i128 + 1),
                         Just(i64::MAX as i128), Just(u64::MAX as i128), Just(i128::MAX), Just((1i128 << 32) + 3), Just((1i128 << 40) + w - 1), Just((1i128 << 64) + 1)],
        4 => 0i128..w,
        2 => 0i128..(2 * w),
        1 => -300i128..300,
        1 => any::<i64>().prop_map(|x| x as i128),
    ]
    .boxed()
}

fn eval_shift<T: ShiftPrims>(c: &(Pat, i128), obs: &mut Obs) -> Result<(), String> {
    let a: T = ld(&c.0);
    let s = c.1;
    let z = a.z();
    let w = T::W as i128;
    let in_range = s >= 0 && s < w;
    obs.nt_if(!in_range);
    obs.label_if(s < 0, "negative shift amount");
    obs.label_if(s >= w, "shift amount >= BITS");
    obs.label_if(s > u32::MAX as i128, "shift amount above u32::MAX");
    macro_rules! one {
        ($($t:ty),*) => {$(
            if let Ok(amt) = <$t>::try_from(s) {
                let (l, r) = (oc(|| a << amt), oc(|| a >> amt));
                let what = concat!("by ", stringify!($t));
                if in_range {
                    ck!(format!("<< {what}"), l, Outcome::Returned(pz::<T>(&z.shl(s as u64))));
                    ck!(format!(">> {what}"), r, Outcome::Returned(pz::<T>(&z.shr_floor(s as u64))));
                } else if DBG {
                    ck!(format!("<< {what} panics (dbg, amount {s})"), l.is_panic(), true);
                    ck!(format!(">> {what} panics (dbg, amount {s})"), r.is_panic(), true);
                } else {
                    ck!(format!("<< {what} does not panic (rel, amount {s})"), l.is_panic(), false);
                    ck!(format!(">> {what} does not panic (rel, amount {s})"), r.is_panic(), false);
                    if T::W.is_power_of_two() {
                        let m = ((amt as u32) % T::W) as u64;
                        ck!(format!("<< {what} wraps the amount (rel)"), l, Outcome::Returned(pz::<T>(&z.shl(m))));
                        ck!(format!(">> {what} wraps the amount (rel)"), r, Outcome::Returned(pz::<T>(&z.shr_floor(m))));
                    }
                }
            }
        )*};
    }
    one!(u8, u16, u32, u64, u128, usize, i8, i16, i32, i64, i128, isize);
    // const twins shl / shr take u32
    if let Ok(amt) = u32::try_from(s) {
        let exp_l = if in_range { Outcome::Returned(pz::<T>(&z.shl(s as u64))) } else if DBG { Outcome::Panic(String::new()) } else { oc(|| a.wrapping_shl(amt)) };
        ck!("shl (const twin)", oc(|| a.c_shl(amt)), exp_l);
        let exp_r = if in_range { Outcome::Returned(pz::<T>(&z.shr_floor(s as u64))) } else if DBG { Outcome::Panic(String::new()) } else { oc(|| a.wrapping_shr(amt)) };
        ck!("shr (const twin)", oc(|| a.c_shr(amt)), exp_r);
    }
    Ok(())
}

/// division / remainder by zero panics in both build modes, through every un-checked form
fn eval_divzero<T: Int>(c: &Pat, obs: &mut Obs) -> Result<(), String> {
    let a: T = ld(c);
    let d = T::k_zero();
    obs.nt();
    obs.label("zero divisor -> panic in both build modes");
    macro_rules! p {
        ($($name:literal => $e:expr),* $(,)?) => {$( ck!(concat!($name, " by zero panics"), outcome(|| { let _ = $e; }).is_panic(), true); )*};
    }
    p! {
        "/" => a / d, "%" => a % d, "div" => a.c_div(d), "rem" => a.c_rem(d),
        "div_euclid" => a.div_euclid(d), "rem_euclid" => a.rem_euclid(d), "div_floor" => a.div_floor(d), "div_ceil" => a.div_ceil(d),
        "next_multiple_of" => a.next_multiple_of(d),
        "wrapping_div" => a.wrapping_div(d), "wrapping_rem" => a.wrapping_rem(d), "wrapping_div_euclid" => a.wrapping_div_euclid(d), "wrapping_rem_euclid" => a.wrapping_rem_euclid(d),
        "overflowing_div" => a.overflowing_div(d), "overflowing_rem" => a.overflowing_rem(d), "overflowing_div_euclid" => a.overflowing_div_euclid(d), "overflowing_rem_euclid" => a.overflowing_rem_euclid(d),
        "saturating_div" => a.saturating_div(d),
        "strict_div" => a.strict_div(d), "strict_rem" => a.strict_rem(d), "strict_div_euclid" => a.strict_div_euclid(d), "strict_rem_euclid" => a.strict_rem_euclid(d),
    }
    Ok(())
}
fn eval_divzero_digit<U: UInt>(c: &Pat, obs: &mut Obs) -> Result<(), String> {
    let a: U = ld(c);
    obs.nt();
    let zero = <U::D as Digit>::from_u64(0);
    ck!("Div<digit> by zero panics", outcome(|| { let _ = a / zero; }).is_panic(), true);
    ck!("Rem<digit> by zero panics", outcome(|| { let _ = a % zero; }).is_panic(), true);
    Ok(())
}

fn eval_min_neg1<I: SInt>(c: &Pat, obs: &mut Obs) -> Result<(), String> {
    let _ = c;
    obs.nt();
    obs.label("MIN / -1 and MIN % -1 through the operators panic in both build modes");
    let (m, n1) = (I::k_min(), I::k_neg_small(1));
    ck!("MIN / -1 panics", outcome(|| { let _ = m / n1; }).is_panic(), true);
    ck!("MIN % -1 panics", outcome(|| { let _ = m % n1; }).is_panic(), true);
    ck!("div(MIN, -1) panics", outcome(|| { let _ = m.c_div(n1); }).is_panic(), true);
    ck!("rem(MIN, -1) panics", outcome(|| { let _ = m.c_rem(n1); }).is_panic(), true);
    Ok(())
}

fn eval_ilog<T: Int>(c: &(Pat, Pat), obs: &mut Obs) -> Result<(), String> {
    let (x, b): (T, T) = (ld(&c.0), ld(&c.1));
    let (zx, zb) = (x.z(), b.z());
    let bad_x = !zx.is_pos();
    let bad_b = zb < Z::from_i64(2);
    obs.nt_if(bad_x || bad_b);
    obs.label_if(bad_x, "ilog of a non-positive value -> panic in both build modes");
    obs.label_if(bad_b, "ilog with base < 2 -> panic in both build modes");
    ck!("ilog2 panics iff x <= 0", outcome(|| x.ilog2()).is_panic(), bad_x);
    ck!("ilog10 panics iff x <= 0", outcome(|| x.ilog10()).is_panic(), bad_x);
    ck!("ilog panics iff x <= 0 or base < 2", outcome(|| x.ilog(b)).is_panic(), bad_x || bad_b);
    ck!("checked_ilog never panics", outcome(|| x.checked_ilog(b)).is_panic(), false);
    ck!("checked_ilog2 never panics", outcome(|| x.checked_ilog2()).is_panic(), false);
    ck!("checked_ilog10 never panics", outcome(|| x.checked_ilog10()).is_panic(), false);
    Ok(())
}

/// strict_* panic exactly on overflow, in both build modes
fn eval_strict<T: Int>(c: &(Pat, Pat, u32, u32), obs: &mut Obs) -> Result<(), String> {
    let (a, b): (T, T) = (ld(&c.0), ld(&c.1));
    let (za, zb) = (a.z(), b.z());
    let (s, e) = (c.2, c.3);
    let w = T::W as u64;
    let mut any = false;
    let mut t = |name: &str, over: bool, got: Outcome<Pat>| -> Result<(), String> {
        any |= over;
        ck!(format!("{name} panics iff overflow"), got.is_panic(), over);
        Ok(())
    };
    t("strict_add", !fits::<T>(&za.add(&zb)), oc(|| a.strict_add(b)))?;
    t("strict_sub", !fits::<T>(&za.sub(&zb)), oc(|| a.strict_sub(b)))?;
    t("strict_mul", !fits::<T>(&za.mul(&zb)), oc(|| a.strict_mul(b)))?;
    t("strict_neg", !fits::<T>(&za.neg()), oc(|| a.strict_neg()))?;
    let div_over = zb.is_zero() || (T::SIGNED && za == zmin::<T>() && zb == Z::from_i64(-1));
    t("strict_div", div_over, oc(|| a.strict_div(b)))?;
    t("strict_rem", div_over, oc(|| a.strict_rem(b)))?;
    t("strict_div_euclid", div_over, oc(|| a.strict_div_euclid(b)))?;
    t("strict_rem_euclid", div_over, oc(|| a.strict_rem_euclid(b)))?;
    t("strict_shl", s >= T::W, oc(|| a.strict_shl(s)))?;
    t("strict_shr", s >= T::W, oc(|| a.strict_shr(s)))?;
    t("strict_pow", za.pow_capped(e, w + 1).map_or(true, |p| !fits::<T>(&p)), oc(|| a.strict_pow(e)))?;
    obs.nt_if(any);
    obs.label_if(any, "strict_* on overflow -> panic in both build modes");
    Ok(())
}
fn eval_strict_mixed<U, I>(c: &(Pat, Pat), obs: &mut Obs) -> Result<(), String>
where
    U: UInt + Int<I = I>,
    I: SInt + Int<U = U>,
{
    let (ua, ub): (U, U) = (ld(&c.0), ld(&c.1));
    let (ia, ib): (I, I) = (ld(&c.0), ld(&c.1));
    let o1 = !fits::<U>(&ua.z().add(&ib.z()));
    let o2 = !fits::<I>(&ia.z().add(&ub.z()));
    let o3 = !fits::<I>(&ia.z().sub(&ub.z()));
    let o4 = !fits::<I>(&ia.z().abs());
    obs.nt_if(o1 || o2 || o3 || o4);
    ck!("strict_add_signed panics iff overflow", oc(|| ua.strict_add_signed(ib)).is_panic(), o1);
    ck!("strict_add_unsigned panics iff overflow", oc(|| ia.strict_add_unsigned(ub)).is_panic(), o2);
    ck!("strict_sub_unsigned panics iff overflow", oc(|| ia.strict_sub_unsigned(ub)).is_panic(), o3);
    ck!("strict_abs panics iff overflow", oc(|| ia.strict_abs()).is_panic(), o4);
    Ok(())
}

/// checked_* never panic for any input
fn eval_checked_never<T: Int>(c: &(Pat, Pat, u32, u32), obs: &mut Obs) -> Result<(), String> {
    let (a, b): (T, T) = (ld(&c.0), ld(&c.1));
    let (s, e) = (c.2, c.3);
    obs.nt_if(b.z().is_zero() || s >= T::W || e > T::W || !fits::<T>(&a.z().mul(&b.z())));
    macro_rules! never {
        ($($name:literal => $e:expr),* $(,)?) => {$( ck!(concat!($name, " never panics"), outcome(|| { let _ = $e; }).is_panic(), false); )*};
    }
    never! {
        "checked_add" => a.checked_add(b), "checked_sub" => a.checked_sub(b), "checked_mul" => a.checked_mul(b),
        "checked_div" => a.checked_div(b), "checked_rem" => a.checked_rem(b), "checked_div_euclid" => a.checked_div_euclid(b), "checked_rem_euclid" => a.checked_rem_euclid(b),
        "checked_neg" => a.checked_neg(), "checked_shl" => a.checked_shl(s), "checked_shr" => a.checked_shr(s),
        "checked_pow" => a.checked_pow(e), "checked_pow(u32::MAX)" => a.checked_pow(u32::MAX), "checked_next_multiple_of" => a.checked_next_multiple_of(b),
        "checked_ilog" => a.checked_ilog(b), "checked_ilog2" => a.checked_ilog2(), "checked_ilog10" => a.checked_ilog10(),
        "checked_ilog(base 0)" => a.checked_ilog(T::k_zero()), "checked_ilog(base 1)" => a.checked_ilog(T::k_one()),
        "checked_shl(u32::MAX)" => a.checked_shl(u32::MAX), "checked_shr(BITS)" => a.checked_shr(T::W),
    }
    Ok(())
}
fn eval_checked_never_mixed<U, I>(c: &(Pat, Pat), obs: &mut Obs) -> Result<(), String>
where
    U: UInt + Int<I = I>,
    I: SInt + Int<U = U>,
{
    let (ua, ub): (U, U) = (ld(&c.0), ld(&c.1));
    let (ia, ib): (I, I) = (ld(&c.0), ld(&c.1));
    obs.nt();
    macro_rules! never {
        ($($name:literal => $e:expr),* $(,)?) => {$( ck!(concat!($name, " never panics"), outcome(|| { let _ = $e; }).is_panic(), false); )*};
    }
    never! {
        "checked_add_signed" => ua.checked_add_signed(ib), "checked_next_power_of_two" => ua.checked_next_power_of_two(),
        "checked_add_unsigned" => ia.checked_add_unsigned(ub), "checked_sub_unsigned" => ia.checked_sub_unsigned(ub), "checked_abs" => ia.checked_abs(),
    }
    Ok(())
}

/// wrapping_/overflowing_/saturating_ forms panic only for a zero divisor
fn eval_wos<T: Int>(c: &(Pat, Pat, u32, u32), obs: &mut Obs) -> Result<(), String> {
    let (a, b): (T, T) = (ld(&c.0), ld(&c.1));
    let (s, e) = (c.2, c.3);
    let zero_div = b.z().is_zero();
    obs.nt_if(zero_div || s >= T::W || !fits::<T>(&a.z().mul(&b.z())));
    macro_rules! never {
        ($($name:literal => $e:expr),* $(,)?) => {$( ck!(concat!($name, " never panics"), outcome(|| { let _ = $e; }).is_panic(), false); )*};
    }
    never! {
        "wrapping_add" => a.wrapping_add(b), "wrapping_sub" => a.wrapping_sub(b), "wrapping_mul" => a.wrapping_mul(b), "wrapping_neg" => a.wrapping_neg(),
        "wrapping_shl" => a.wrapping_shl(s), "wrapping_shr" => a.wrapping_shr(s), "wrapping_pow" => a.wrapping_pow(e),
        "overflowing_add" => a.overflowing_add(b), "overflowing_sub" => a.overflowing_sub(b), "overflowing_mul" => a.overflowing_mul(b), "overflowing_neg" => a.overflowing_neg(),
        "overflowing_shl" => a.overflowing_shl(s), "overflowing_shr" => a.overflowing_shr(s), "overflowing_pow" => a.overflowing_pow(e),
        "saturating_add" => a.saturating_add(b), "saturating_sub" => a.saturating_sub(b), "saturating_mul" => a.saturating_mul(b), "saturating_pow" => a.saturating_pow(e),
        "carrying_add" => a.carrying_add(b, true), "borrowing_sub" => a.borrowing_sub(b, true),
        "unbounded_shl" => a.unbounded_shl(s), "unbounded_shr" => a.unbounded_shr(s), "rotate_left" => a.rotate_left(s), "rotate_right" => a.rotate_right(s),
        "abs_diff" => a.abs_diff(b), "midpoint" => a.midpoint(b),
    }
    macro_rules! zd {
        ($($name:literal => $e:expr),* $(,)?) => {$( ck!(concat!($name, " panics iff the divisor is zero"), outcome(|| { let _ = $e; }).is_panic(), zero_div); )*};
    }
    zd! {
        "wrapping_div" => a.wrapping_div(b), "wrapping_rem" => a.wrapping_rem(b), "wrapping_div_euclid" => a.wrapping_div_euclid(b), "wrapping_rem_euclid" => a.wrapping_rem_euclid(b),
        "overflowing_div" => a.overflowing_div(b), "overflowing_rem" => a.overflowing_rem(b), "overflowing_div_euclid" => a.overflowing_div_euclid(b), "overflowing_rem_euclid" => a.overflowing_rem_euclid(b),
        "saturating_div" => a.saturating_div(b),
    }
    Ok(())
}
fn eval_wos_mixed<U, I>(c: &(Pat, Pat), obs: &mut Obs) -> Result<(), String>
where
    U: UInt + Int<I = I>,
    I: SInt + Int<U = U>,
{
    let (ua, ub): (U, U) = (ld(&c.0), ld(&c.1));
    let (ia, ib): (I, I) = (ld(&c.0), ld(&c.1));
    obs.nt();
    macro_rules! never {
        ($($name:literal => $e:expr),* $(,)?) => {$( ck!(concat!($name, " never panics"), outcome(|| { let _ = $e; }).is_panic(), false); )*};
    }
    never! {
        "wrapping_add_signed" => ua.wrapping_add_signed(ib), "overflowing_add_signed" => ua.overflowing_add_signed(ib), "saturating_add_signed" => ua.saturating_add_signed(ib),
        "wrapping_next_power_of_two" => ua.wrapping_next_power_of_two(), "widening_mul" => ua.widening_mul(ub), "carrying_mul" => ua.carrying_mul(ub, ua),
        "wrapping_add_unsigned" => ia.wrapping_add_unsigned(ub), "overflowing_sub_unsigned" => ia.overflowing_sub_unsigned(ub), "saturating_add_unsigned" => ia.saturating_add_unsigned(ub),
        "saturating_sub_unsigned" => ia.saturating_sub_unsigned(ub), "wrapping_abs" => ia.wrapping_abs(), "overflowing_abs" => ia.overflowing_abs(), "saturating_abs" => ia.saturating_abs(),
        "saturating_neg" => ia.saturating_neg(), "unsigned_abs" => ia.unsigned_abs(),
    }
    Ok(())
}

/// operand pairs with the weight on overflowing inputs
fn heavy_pairs(sh: Shape) -> BoxedStrategy<(Pat, Pat)> {
    prop_oneof![
        4 => gen::pattern_pair(sh),
        3 => (gen::boundary(sh), gen::boundary(sh)),
        2 => (gen::pattern(sh), gen::boundary(sh)),
        1 => gen::pattern(sh).prop_map(move |a| (a, Pat(vec![0u8; sh.bytes]))),
    ]
    .boxed()
}
fn quads(sh: Shape) -> BoxedStrategy<(Pat, Pat, u32, u32)> {
    let w = sh.bits();
    (heavy_pairs(sh), gen::amount(sh), prop_oneof![3 => 0u32..6, 2 => 0u32..(2 * w), 1 => Just(u32::MAX), 1 => Just(w)]).prop_map(|((a, b), s, e)| (a, b, s, e)).boxed()
}

fn jobs_for<U, I>(jobs: &mut Vec<Job>)
where
    U: UInt + Int<I = I> + ShiftPrims,
    I: SInt + Int<U = U> + ShiftPrims,
{
    let sh: Shape = U::shape();
    let sc = width_scale(U::W);
    let q = move |base: u32| ((base as f64 * sc).ceil() as u32).max(30);
    jobs.push(Job::new(job_name::<U>("ops/arith"), move |ctx| {
        ctx.run("arith_u", ctx.budget(q(QUICK), FACTOR), heavy_pairs(sh), eval_arith::<U>);
        ctx.run("arith_i", ctx.budget(q(QUICK), FACTOR), heavy_pairs(sh), eval_arith::<I>);
        ctx.run("neg_abs_i", ctx.budget(q(QUICK / 2), FACTOR), prop_oneof![gen::pattern(sh), gen::boundary(sh)], eval_neg_abs::<I>);
    }));
    jobs.push(Job::new(job_name::<U>("methods/pow_npo2_nmo"), move |ctx| {
        let w = sh.bits();
        let s = move || (heavy_pairs(sh), prop_oneof![3 => 0u32..6, 2 => 0u32..(2 * w), 1 => Just(u32::MAX)]).prop_map(|((a, b), e)| (a, b, e));
        ctx.run("pow_nmo_u", ctx.budget(q(QUICK / 2), FACTOR), s(), eval_pow_nmo::<U>);
        ctx.run("pow_nmo_i", ctx.budget(q(QUICK / 2), FACTOR), s(), eval_pow_nmo::<I>);
        ctx.run("npo2_u", ctx.budget(q(QUICK / 2), FACTOR), prop_oneof![gen::pattern(sh), gen::boundary(sh)], eval_npo2::<U>);
    }));
    jobs.push(Job::new(job_name::<U>("ops/shift"), move |ctx| {
        ctx.run("shift_u", ctx.budget(q(QUICK), FACTOR), (gen::pattern(sh), shift_amounts(sh)), eval_shift::<U>);
        ctx.run("shift_i", ctx.budget(q(QUICK), FACTOR), (gen::pattern(sh), shift_amounts(sh)), eval_shift::<I>);
    }));
    jobs.push(Job::new(job_name::<U>("ops/divrem"), move |ctx| {
        ctx.run("divzero_u", ctx.budget(40, FACTOR), gen::pattern(sh), eval_divzero::<U>);
        ctx.run("divzero_i", ctx.budget(40, FACTOR), gen::pattern(sh), eval_divzero::<I>);
        ctx.run("divzero_digit", ctx.budget(20, FACTOR), gen::pattern(sh), eval_divzero_digit::<U>);
        ctx.run("min_neg1", 2, gen::pattern(sh), eval_min_neg1::<I>);
    }));
    jobs.push(Job::new(job_name::<U>("methods/ilog"), move |ctx| {
        ctx.run("ilog_u", ctx.budget(q(QUICK / 4), FACTOR), heavy_pairs(sh), eval_ilog::<U>);
        ctx.run("ilog_i", ctx.budget(q(QUICK / 4), FACTOR), heavy_pairs(sh), eval_ilog::<I>);
    }));
    jobs.push(Job::new(job_name::<U>("strict"), move |ctx| {
        ctx.run("strict_u", ctx.budget(q(QUICK / 2), FACTOR), quads(sh), eval_strict::<U>);
        ctx.run("strict_i", ctx.budget(q(QUICK / 2), FACTOR), quads(sh), eval_strict::<I>);
        ctx.run("strict_mixed", ctx.budget(q(QUICK / 2), FACTOR), heavy_pairs(sh), eval_strict_mixed::<U, I>);
    }));
    jobs.push(Job::new(job_name::<U>("checked_never"), move |ctx| {
        ctx.run("checked_u", ctx.budget(q(QUICK / 2), FACTOR), quads(sh), eval_checked_never::<U>);
        ctx.run("checked_i", ctx.budget(q(QUICK / 2), FACTOR), quads(sh), eval_checked_never::<I>);
        ctx.run("checked_mixed", ctx.budget(q(QUICK / 4), FACTOR), heavy_pairs(sh), eval_checked_never_mixed::<U, I>);
    }));
    jobs.push(Job::new(job_name::<U>("wos_only_zero"), move |ctx| {
        ctx.run("wos_u", ctx.budget(q(QUICK / 2), FACTOR), quads(sh), eval_wos::<U>);
        ctx.run("wos_i", ctx.budget(q(QUICK / 2), FACTOR), quads(sh), eval_wos::<I>);
        ctx.run("wos_mixed", ctx.budget(q(QUICK / 4), FACTOR), heavy_pairs(sh), eval_wos_mixed::<U, I>);
    }));
}

// ------------------------------------------------------------------------------------------------
// primitive twins: the same expression on the primitive of equal width, in the same binary (its
// overflow checks follow the same profile) — the literal reading of "exactly where the primitives panic"
// ------------------------------------------------------------------------------------------------

macro_rules! twin_jobs {
    ($jobs:ident; $( $k:ident $B:ty => $P:ty ),* $(,)?) => {$(
        $jobs.push(Job::new(format!("twin/{}~{}", <$B as Int>::tname(), stringify!($P)), |ctx| {
            let sh = <$B as Int>::shape();
            ctx.run("twin", ctx.budget(QUICK, FACTOR), (heavy_pairs(sh), shift_amounts(sh), 0u32..70), |c: &((Pat, Pat), i128, u32), obs: &mut Obs| {
                let (a, b): ($B, $B) = (ld(&c.0 .0), ld(&c.0 .1));
                let pa = <$P>::from_le_bytes(c.0 .0 .0.clone().try_into().unwrap());
                let pb = <$P>::from_le_bytes(c.0 .1 .0.clone().try_into().unwrap());
                let e = c.2;
                obs.nt();
                let pp = |f: &dyn Fn() -> $P| -> Outcome<Pat> { vlib::runner::outcome_here(|| f()).map(|v| Pat(v.to_le_bytes().to_vec())) };
                macro_rules! same {
                    ($name:literal, $be:expr, $pe:expr) => {
                        ck!(concat!($name, " has the primitive's outcome"), oc(|| $be), pp(&|| $pe));
                    };
                }
                same!("+", a + b, pa + pb);
                same!("-", a - b, pa - pb);
                same!("*", a * b, pa * pb);
                same!("/", a / b, pa / pb);
                same!("%", a % b, pa % pb);
                same!("pow", a.pow(e), pa.pow(e));
                same!("div_euclid", a.div_euclid(b), pa.div_euclid(pb));
                same!("rem_euclid", a.rem_euclid(b), pa.rem_euclid(pb));
                ck!("ilog has the primitive's outcome", outcome(|| a.ilog(b)), vlib::runner::outcome_here(|| pa.ilog(pb)));
                ck!("ilog2 has the primitive's outcome", outcome(|| a.ilog2()), vlib::runner::outcome_here(|| pa.ilog2()));
                ck!("ilog10 has the primitive's outcome", outcome(|| a.ilog10()), vlib::runner::outcome_here(|| pa.ilog10()));
                macro_rules! sh {
                    ($t:ty) => {
                        if let Ok(amt) = <$t>::try_from(c.1) {
                            same!("<<", a << amt, pa << amt);
                            same!(">>", a >> amt, pa >> amt);
                        }
                    };
                }
                sh!(u8); sh!(i8); sh!(u16); sh!(i16); sh!(u32); sh!(i32); sh!(u64); sh!(i64); sh!(u128); sh!(i128); sh!(usize); sh!(isize);
                twin_extra!($k a, b, pa, pb, pp);
                Ok(())
            });
        }));
    )*};
}
macro_rules! twin_extra {
    // unsigned-only / signed-only methods
    (u $a:ident, $b:ident, $pa:ident, $pb:ident, $pp:ident) => {
        ck!("next_power_of_two has the primitive's outcome", oc(|| $a.next_power_of_two()), $pp(&|| $pa.next_power_of_two()));
        ck!("next_multiple_of has the primitive's outcome", oc(|| $a.next_multiple_of($b)), $pp(&|| $pa.next_multiple_of($pb)));
        ck!("div_ceil has the primitive's outcome", oc(|| $a.div_ceil($b)), $pp(&|| $pa.div_ceil($pb)));
    };
    (i $a:ident, $b:ident, $pa:ident, $pb:ident, $pp:ident) => {
        ck!("unary - has the primitive's outcome", oc(|| -$a), $pp(&|| -$pa));
        ck!("abs has the primitive's outcome", oc(|| $a.abs()), $pp(&|| $pa.abs()));
    };
}

fn main() {
    let mut jobs = Vec::new();
    macro_rules! add {
        ($U:ty, $I:ty) => {
            jobs_for::<$U, $I>(&mut jobs);
        };
    }
    for_all_cfgs!(add);
    use bnum::*;
    twin_jobs! { jobs;
        u BUintD8<1> => u8,
        i BIntD8<1> => i8,
        u BUintD8<2> => u16,
        i BIntD8<2> => i16,
        u BUintD16<1> => u16,
        i BIntD16<1> => i16,
        u BUintD8<4> => u32,
        i BIntD16<2> => i32,
        u BUintD32<1> => u32,
        i BIntD32<1> => i32,
        u BUintD8<8> => u64,
        i BIntD16<4> => i64,
        u BUintD32<2> => u64,
        i BIntD32<2> => i64,
        u BUint<1> => u64,
        i BInt<1> => i64,
        u BUintD8<16> => u128,
        i BIntD16<8> => i128,
        u BUintD32<4> => u128,
        i BIntD32<4> => i128,
        u BUint<2> => u128,
        i BInt<2> => i128,
    }
    runner::main(
        Property {
            id: "C04",
            rule: "Run in both build profiles (dbg: debug assertions + overflow checks on; rel: off). Operands as in C01-C03/C05/C08 with the weight on overflowing inputs (structured pairs, boundary x boundary, zero divisors); shift amounts for each of the twelve primitive amount types from {0, 1, W-1, W, W+1, 2W, T::MIN, T::MAX, -1, values above u32::MAX, uniform}. Oracle: catch_unwind gives Panicked | Returned(v) and the expected outcome is computed from exact arithmetic per profile: operators + - * unary-, << >>, pow, abs, next_power_of_two, next_multiple_of panic in dbg exactly when the exact result is unrepresentable (amount negative or >= BITS) and return the wrapped value in rel (shift amount reduced modulo BITS asserted only for power-of-two widths); division/remainder by zero through every un-checked form, MIN / -1 and MIN % -1 through the operators, ilog of x <= 0 or base < 2, and strict_* on overflow panic in both; checked_* never panic; wrapping_/overflowing_/saturating_* panic only for a zero divisor. At 8/16/32/64/128 bits the same expression on the primitive of equal width is evaluated under catch_unwind in the same binary and the two outcomes must agree (22 bnum types as twins). NON-TRIVIAL: the expected outcome is a panic, or (rel) a wrapped value that differs from the exact one, or an out-of-range amount; twin cases all count. distinct = distinct (profile, job, inputs) by 64-bit hash.",
            assumptions: &[
                "debug-assertions and overflow-checks are tied together per profile, as cargo's defaults tie them; bnum is compiled with the same profile as the check",
                "panic messages are not compared; div_floor/div_ceil on (MIN, -1) are outside the property",
            ],
        },
        jobs,
        &[("refint", vlib::refint::self_test)],
    );
}
