//! C12 — formatting traits print what Rust prints for a primitive of the same value (DESIGN.md §4 C12)

use checks::api::{width_scale, Int, SInt, UInt};
use checks::common::*;
use checks::for_all_cfgs;
use proptest::prelude::*;
use vlib::fmt_model::{self, fmt_any, Numerals, SPEC_COUNT, TRAITS};
use vlib::gen::{self, Shape};
use vlib::runner::{self, outcome, Job, Obs, Outcome, Property};
use vlib::{Pat, Z};

const QUICK: u32 = 400;
const FACTOR: u32 = 20;
const STRIDE: usize = 8; // each case covers SPEC_COUNT / STRIDE specifications x 8 traits

fn values(sh: Shape, signed: bool) -> BoxedStrategy<Pat> {
    let w = sh.bits() as u64;
    let wrap = move |z: Z| Pat(z.to_le_wrapped(sh.bytes));
    let db = sh.digit_bytes;
    let dbits = sh.digit_bits();
    let dec_bases: Vec<u64> = (1u32..20).map(|k| 10u64.pow(k)).filter(|&b| dbits == 64 || b < (1u64 << dbits)).collect();
    let aligned = (proptest::sample::select(dec_bases).prop_flat_map(move |b| gen::base_aligned(sh, b)), any::<bool>()).prop_map(move |(p, neg)| {
        if neg && signed { wrap(Z::from_le_unsigned(&p.0).mod_2k(w - 1).neg()) } else { p }
    });
    // decimal numerals made of runs of one digit and of a repeated block (repdigits, periodic numerals)
    let numeral_structured = (proptest::collection::vec((0u8..10, 1usize..40, proptest::collection::vec(0u8..10, 1..11), 0u8..4), 1..6), any::<bool>(), any::<bool>()).prop_map(move |(parts, lead, neg)| {
        let cap = (w as f64 * 0.30103) as usize + 1;
        let mut digits: Vec<u8> = Vec::new();
        if lead {
            digits.push(1);
        }
        for (d, len, block, mode) in parts {
            match mode {
                0 | 1 => digits.extend(std::iter::repeat(d).take(len * 2)),
                2 => {
                    for _ in 0..len {
                        digits.extend(block.iter());
                    }
                }
                _ => digits.extend(block.iter()),
            }
            if digits.len() >= cap {
                break;
            }
        }
        let maxbits = if signed { w - 1 } else { w };
        let mut z = Z::from_radix_be(&digits, 10);
        while z.bit_len() > maxbits && !digits.is_empty() {
            digits.remove(0);
            z = Z::from_radix_be(&digits, 10);
        }
        wrap(if neg && signed { z.neg() } else { z })
    });
    prop_oneof![
        3 => gen::pattern(sh),
        3 => numeral_structured,
        // binary-aligned small multiples of the powers of ten that fit a digit (short-division boundary of the decimal conversion)
        3 => aligned,
        // interior zero digits / digits with leading zero nibbles (skipped or mis-padded interior digits)
        3 => proptest::collection::vec(prop_oneof![3 => Just(0u64), 2 => Just(1u64), 1 => Just(0x0fu64), 1 => Just(0x10u64), 1 => 0u64..256, 2 => any::<u64>()], sh.n()).prop_map(move |ds| {
            let mut v = Vec::new();
            for d in ds { v.extend_from_slice(&d.to_le_bytes()[..db]); }
            Pat(v)
        }),
        // powers of ten and multiples of large powers of ten (exponent trimming)
        3 => (0u32..2500, 1u64..1000, any::<bool>()).prop_map(move |(k, m, neg)| {
            let maxk = ((w as f64) * 0.30103) as u32;
            let p = Z::from_i64(10).pow_capped(k % (maxk + 1), w + 8).unwrap_or_else(Z::one);
            let z = p.mul(&Z::from_u64(m));
            let z = if z.bit_len() >= w { p } else { z };
            let z = if z.bit_len() >= w - 1 { Z::from_i64(10) } else { z };
            wrap(if neg && signed { z.neg() } else { z })
        }),
        1 => gen::boundary(sh),
        1 => prop_oneof![Just(0i64), Just(1), Just(-1), Just(9), Just(10), Just(-10), Just(100), Just(15), Just(16), Just(255)].prop_map(move |x| wrap(Z::from_i64(x))),
    ]
    .boxed()
}

fn eval_fmt<T: Int>(c: &(Pat, u8, u8, u8), obs: &mut Obs) -> Result<(), String> {
    let x: T = ld(&c.0);
    let (base, wsel, wraw) = (c.1 as usize % STRIDE, c.2, c.3 as usize);
    let z = x.z();
    let bits = T::W as u64;
    let nums = Numerals::new(&z, bits);
    let have_prim = matches!(T::W, 8 | 16 | 32 | 64 | 128);
    let db = T::shape().digit_bytes;
    let interior_zero = T::shape().n() >= 3 && c.0 .0.chunks(db).skip(1).take(T::shape().n() - 2).any(|d| d.iter().all(|&b| b == 0)) && c.0 .0[(T::shape().n() - 1) * db..].iter().any(|&b| b != 0);
    obs.nt();
    obs.label_if(interior_zero, "interior zero digit below a non-zero top digit");
    obs.label_if(z.is_neg(), "negative value");
    obs.label_if(have_prim, "compared with the primitive of equal width");
    obs.label_if(nums.dec.len() > 1 && nums.dec.ends_with('0'), "decimal numeral with trailing zeros (exponent trimming)");
    for (ti, &tr) in TRAITS.iter().enumerate() {
        let natural = nums.model(tr, 0, 0).chars().count();
        let mut si = base;
        while si < SPEC_COUNT {
            let width = match (wsel as usize + ti + si / STRIDE) % 10 {
                0 => 0,
                1 => 1,
                2 => natural.saturating_sub(1),
                3 => natural,
                4 => natural + 1,
                5 => natural + 2,
                6 => natural + 3,
                7 => 40,
                8 => 255,
                _ => wraw,
            };
            let expected = nums.model(tr, si, width);
            if have_prim {
                let p = fmt_model::prim_text(&z, bits, T::SIGNED, tr, si, width).expect("primitive of equal width");
                // a wrong model must show up as a harness error, not as a violation
                assert!(p == expected, "fmt model disagrees with the primitive: {:?} {:?} spec {} width {}: {:?} vs {:?}", z, tr, fmt_model::spec(si).text, width, expected, p);
            }
            let got = outcome(|| fmt_any(&x, tr, si, width));
            vlib::runner::count_cmp(1);
            if got != Outcome::Returned(expected.clone()) {
                return Err(format!("{:?} with {} width {}: expected {:?}, observed {:?}", tr, fmt_model::spec(si).text, width, expected, got));
            }
            si += STRIDE;
        }
    }
    obs.note(|| format!("x={:?}: Display {:?}, LowerHex {:?}, LowerExp {:?}", z, nums.model(TRAITS[0], 0, 0), nums.model(TRAITS[4], 4, 0), nums.model(TRAITS[6], 0, 0)));
    Ok(())
}

fn jobs_for<U, I>(jobs: &mut Vec<Job>)
where
    U: UInt + Int<I = I>,
    I: SInt + Int<U = U>,
{
    let sh: Shape = U::shape();
    let sc = width_scale(U::W);
    let q = move |base: u32| ((base as f64 * sc).ceil() as u32).max(16);
    jobs.push(Job::new(job_name::<U>("u/fmt"), move |ctx| {
        ctx.run("fmt", ctx.budget(q(QUICK), FACTOR), (values(sh, false), 0u8..STRIDE as u8, 0u8..10, any::<u8>()), eval_fmt::<U>);
    }));
    jobs.push(Job::new(job_name::<U>("i/fmt"), move |ctx| {
        ctx.run("fmt", ctx.budget(q(QUICK), FACTOR), (values(sh, true), 0u8..STRIDE as u8, 0u8..10, any::<u8>()), eval_fmt::<I>);
    }));
}

/// plain `{}` `{:?}` `{:o}` `{:e}` `{:E}` (specification 0, no width) of one value: the cheap evaluator of the length sweep
fn eval_plain<T: Int>(c: &Pat, obs: &mut Obs) -> Result<(), String> {
    let x: T = ld(c);
    let z = x.z();
    let nums = Numerals::new(&z, T::W as u64);
    obs.nt_if(nums.dec.len() >= 3);
    obs.label("numeral-length sweep (10^k - 1, 10^k, 10^k + 1, 2^b - 1, 2^(b-1))");
    for tr in [TRAITS[0], TRAITS[1], TRAITS[3], TRAITS[6], TRAITS[7]] {
        let expected = nums.model(tr, 0, 0);
        let got = outcome(|| fmt_any(&x, tr, 0, 0));
        vlib::runner::count_cmp(1);
        if got != Outcome::Returned(expected.clone()) {
            return Err(format!("{:?} (plain): expected {:?}, observed {:?}", tr, expected, got));
        }
    }
    obs.note(|| format!("x={:?}: Display {:?}", z, nums.dec));
    Ok(())
}

/// NUMERAL-LENGTH SWEEP (see C11): decimal text is produced through a length that depends on the
/// bit length; 10^k - 1, 10^k, 10^k + 1 and the extreme values of every bit length
fn length_values(sh: Shape, signed: bool, full: bool) -> Vec<Pat> {
    let w = sh.bits() as u64;
    let wide = w > 1100;
    let (dense_n, bstep) = if full { (400, 13) } else { (100, 53) };
    let maxbits = if signed { w - 1 } else { w };
    let wrap = |z: &Z| Pat(z.to_le_wrapped(sh.bytes));
    let mut out = Vec::new();
    let ten = Z::from_i64(10);
    let kmax = (maxbits as f64 * 0.30103) as u32 + 1;
    let stride = if wide { (kmax / dense_n).max(1) } else { 1 };
    let (mut p, mut k) = (Z::one(), 0u32);
    while p.bit_len() <= maxbits {
        if k % stride == 0 || k + 4 >= kmax {
            for e in [-1i64, 0, 1] {
                let v = p.add_i(e);
                if v.bit_len() <= maxbits {
                    out.push(wrap(&v));
                    if signed {
                        out.push(wrap(&v.neg()));
                    }
                }
            }
        }
        p = p.mul(&ten);
        k += 1;
    }
    let bstride = if wide { bstep } else { 1 };
    for b in (1..=maxbits).filter(|b| b % bstride == 0 || *b + 3 >= maxbits) {
        out.push(wrap(&Z::pow2(b).add_i(-1)));
        out.push(wrap(&Z::pow2(b - 1)));
        if signed {
            out.push(wrap(&Z::pow2(b).add_i(-1).neg()));
        }
    }
    out
}

fn sweep_jobs<U, I>(jobs: &mut Vec<Job>)
where
    U: UInt + Int<I = I>,
    I: SInt + Int<U = U>,
{
    let sh: Shape = U::shape();
    jobs.push(Job::new(job_name::<U>("length_sweep/u"), move |ctx| {
        let full = ctx.tier() == vlib::Tier::Thorough;
        ctx.enumerate("u_len", "10^k - 1, 10^k, 10^k + 1 for the exponents k and 2^b - 1, 2^(b-1) for the bit lengths b: plain Display, Debug, Octal, LowerExp, UpperExp", length_values(sh, false, full).into_iter(), eval_plain::<U>);
    }));
    jobs.push(Job::new(job_name::<U>("length_sweep/i"), move |ctx| {
        let full = ctx.tier() == vlib::Tier::Thorough;
        ctx.enumerate("i_len", "+-(10^k - 1), +-10^k, +-(10^k + 1) and +-(2^b - 1), 2^(b-1): plain Display, Debug, Octal, LowerExp, UpperExp", length_values(sh, true, full).into_iter(), eval_plain::<I>);
    }));
}

fn exhaustive(jobs: &mut Vec<Job>) {
    type U8 = bnum::BUintD8<1>;
    type I8 = bnum::BIntD8<1>;
    jobs.push(Job::new("small/exhaustive8@D8x1", |ctx| {
        let all = || (0..=255u8).flat_map(|a| (0..STRIDE as u8).map(move |b| (Pat(vec![a]), b, a % 10, a)));
        ctx.enumerate("u_fmt", "all values x all 160 specifications x 8 traits of BUintD8<1>", all(), eval_fmt::<U8>);
        ctx.enumerate("i_fmt", "all values x all 160 specifications x 8 traits of BIntD8<1>", all(), eval_fmt::<I8>);
    }));
}

fn main() {
    let mut jobs = Vec::new();
    macro_rules! add {
        ($U:ty, $I:ty) => {
            jobs_for::<$U, $I>(&mut jobs);
            sweep_jobs::<$U, $I>(&mut jobs);
        };
    }
    for_all_cfgs!(add);
    exhaustive(&mut jobs);
    runner::main(
        Property {
            id: "C12",
            rule: "Format specifications are literals, so all 160 combinations of fill/alignment in {none, <, ^, >, *<, *^, *>, 0<, e-acute ^, #>} x '+' x '#' x '0' x width in {none, runtime} are enumerated by a generated table and applied through a wrapper Display type that forwards the same Formatter to the chosen trait of the value; every case evaluates all 8 traits x 20 specifications (specification index = base + 8k, base cycled, so 8 cases cover the whole table) with runtime widths {0, 1, len-1, len, len+1, len+2, len+3, 40, 255, uniform <= 255}. Values: structured patterns, digit vectors with many zero / small interior digits, powers of ten and multiples of large powers of ten, boundary values, negatives. Oracle: at 8/16/32/64/128 bits the same specification applied to the primitive holding the same value (byte-identical text), at every width the formatter model (pad_integral + reference numerals / two's-complement pattern / d.ddde<k>); the model is compared with the primitives at start-up (and in-line at primitive widths, where a mismatch is a harness error). NON-TRIVIAL: every case (each applies 160 flag/trait combinations, most with padding or flags). distinct = distinct (profile, job, value, spec base, width selector) by 64-bit hash. 8-bit configuration: all values x all specifications x all traits. A deterministic NUMERAL-LENGTH SWEEP per configuration adds 10^k - 1, 10^k, 10^k + 1 (both signs for signed types) for the decimal exponents k and 2^b - 1, 2^(b-1) for the bit lengths b with the plain specification of Display, Debug, Octal, LowerExp and UpperExp - all exponents and bit lengths on types up to 1088 bits, a spread selection on wider types (four times denser in the thorough tier).",
            assumptions: &[
                "digits()/from_digits()/to_bits()/from_bits() are the trusted observation channel",
                "precision ({:.3}) and {:x?}/{:X?} are not among the listed flags and are not checked",
                "the Formatter handed to a wrapper's Display::fmt carries exactly the flags of the outer specification (checked by applying the same wrapper to primitives)",
            ],
        },
        jobs,
        &[("refint", vlib::refint::self_test), ("fmt_model", vlib::fmt_model::self_test)],
    );
}
