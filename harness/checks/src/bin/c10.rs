//! C10 — parsing accepts exactly the integer grammar and returns the denoted value (DESIGN.md §4 C10)

use checks::api::{width_scale, Int, SInt, UInt};
use checks::common::*;
use checks::for_all_cfgs;
use core::num::IntErrorKind;
use proptest::prelude::*;
use vlib::case::Bytes;
use vlib::gen::{self, Shape};
use vlib::parse_model::{digits_expect, parse_expect, Expect, Kind};
use vlib::runner::{self, outcome, Job, Obs, Outcome, Property};
use vlib::{ck, Pat, Z};

const QUICK: u32 = 1200;
const FACTOR: u32 = 20;

fn kind_of(e: &bnum::errors::ParseIntError) -> Kind {
    match e.kind() {
        IntErrorKind::Empty => Kind::Empty,
        IntErrorKind::InvalidDigit => Kind::InvalidDigit,
        IntErrorKind::PosOverflow => Kind::PosOverflow,
        IntErrorKind::NegOverflow => Kind::NegOverflow,
        IntErrorKind::Zero => Kind::Zero,
        _ => Kind::Other,
    }
}

/// capacity = number of radix-r digits needed for 2^W - 1
fn capacity(w: u32, radix: u32) -> usize {
    Z::pow2(w as u64).add_i(-1).to_radix_be(radix).len()
}

fn digit_char(d: u8, mode: u8, pos: usize) -> u8 {
    if d < 10 {
        b'0' + d
    } else {
        let upper = match mode {
            0 => false,
            1 => true,
            _ => pos % 2 == 0,
        };
        (if upper { b'A' } else { b'a' }) + d - 10
    }
}

/// magnitudes of interest for a type with `w` bits
fn magnitudes(sh: Shape, radix_for_powers: u32) -> BoxedStrategy<Z> {
    let w = sh.bits() as u64;
    let r = radix_for_powers;
    prop_oneof![
        2 => prop_oneof![Just(0i64), Just(1), Just(2), Just(9), Just(10), 0i64..1000].prop_map(Z::from_i64),
        4 => (0u8..6, -2i64..=2).prop_map(move |(sel, e)| {
            let base = match sel {
                0 => Z::pow2(w).add_i(-1),          // unsigned MAX
                1 => Z::pow2(w - 1).add_i(-1),      // signed MAX
                2 => Z::pow2(w - 1),                // |signed MIN|
                3 => Z::pow2(w),
                4 => Z::pow2(w + 1),
                _ => Z::pow2(w - 1).add(&Z::pow2(w - 2)),
            };
            let z = base.add_i(e);
            if z.is_neg() { Z::zero() } else { z }
        }),
        2 => (1u32..=sh.bits(), -1i64..=1).prop_map(move |(j, e)| {
            // r^j +- 1 around the per-radix chunk sizes
            let z = Z::from_u64(r as u64).pow_capped(j, w + 8).unwrap_or_else(|| Z::pow2(w)).add_i(e);
            if z.is_neg() { Z::zero() } else { z }
        }),
        4 => gen::pattern(sh).prop_map(|p| Z::from_le_unsigned(&p.0)),
    ]
    .boxed()
}

/// largest p with radix^p <= 2^bits (the chunk size of the multiply-add parser for a digit size)
fn chunk_power(radix: u32, bits: u32) -> usize {
    let lim = Z::pow2(bits as u64);
    let mut x = Z::one();
    let mut p = 0;
    loop {
        let nx = x.mul(&Z::from_u64(radix as u64));
        if nx > lim {
            return p.max(1);
        }
        x = nx;
        p += 1;
    }
}

/// prefix-structured digit strings: numeral(P) followed by m whole chunks of further digits, where
/// P is a structured BINARY pattern (zero / extreme binary digits), so that the running value of a
/// Horner / chunked parser is structured at a chunk boundary. Digits most significant first.
fn prefix_structured(sh: Shape, radix: u32) -> BoxedStrategy<Vec<u8>> {
    let w = sh.bits() as u64;
    let power = chunk_power(radix, sh.digit_bits());
    (prop_oneof![gen::digitwise(sh), gen::runs(sh), gen::short(sh)], 1usize..4, proptest::collection::vec(0u32..radix, 3 * power), 0u8..3, 0usize..3)
        .prop_map(move |(p, m, tail, tsel, zero_chunks)| {
            let tail_len = m * power;
            let scale_bits = Z::from_u64(radix as u64).pow_capped(tail_len as u32, w + 8).map_or(w, |s| s.bit_len());
            let room = w.saturating_sub(scale_bits);
            let zp = Z::from_le_unsigned(&p.0).mod_2k(room);
            let mut ds: Vec<u8> = vec![0u8; zero_chunks * power];
            ds.extend(zp.to_radix_be(radix));
            for i in 0..tail_len {
                ds.push(match tsel {
                    0 => 0,
                    1 => (radix - 1) as u8,
                    _ => tail[i % tail.len()] as u8,
                });
            }
            ds
        })
        .boxed()
}

/// (string bytes, radix): valid grammar strings, boundary strings, invalid strings
fn strings(sh: Shape, radix: u32) -> BoxedStrategy<Bytes> {
    let w = sh.bits();
    let cap = capacity(w, radix);
    let valid_body = prop_oneof![
        5 => (magnitudes(sh, radix), 0u8..3).prop_map(move |(z, mode)| {
            z.to_radix_be(radix).iter().enumerate().map(|(i, &d)| digit_char(d, mode, i)).collect::<Vec<u8>>()
        }),
        // random digit strings with length around the capacity
        3 => (proptest::collection::vec(0u32..radix, cap.saturating_sub(2).max(1)..=cap + 2), 0u8..3, any::<bool>()).prop_map(move |(ds, mode, max_first)| {
            let mut ds = ds;
            if max_first { ds[0] = radix - 1; }
            ds.iter().enumerate().map(|(i, &d)| digit_char(d as u8, mode, i)).collect::<Vec<u8>>()
        }),
        // structured running value at a chunk boundary
        3 => (prefix_structured(sh, radix), 0u8..3).prop_map(move |(ds, mode)| ds.iter().enumerate().map(|(i, &d)| digit_char(d, mode, i)).collect::<Vec<u8>>()),
    ];
    let zeros = prop_oneof![6 => Just(0usize), 3 => 1usize..4, 3 => (0usize..6).prop_map(move |k| cap + k), 1 => (0usize..3).prop_map(move |k| 2 * cap + k)];
    let sign = prop_oneof![5 => Just(0u8), 2 => Just(1u8), 4 => Just(2u8)];
    let valid = (sign, zeros, valid_body).prop_map(|(sign, nz, body)| {
        let mut s = Vec::new();
        match sign {
            1 => s.push(b'+'),
            2 => s.push(b'-'),
            _ => {}
        }
        s.extend(std::iter::repeat(b'0').take(nz));
        s.extend(body);
        s
    });
    let foreign = prop_oneof![
        Just(vec![b' ']), Just(vec![b'\t']), Just(vec![b'_']), Just(vec![b'.']), Just(vec![b'+']), Just(vec![b'-']), Just(vec![b'\n']), Just(vec![0u8]),
        Just("é".as_bytes().to_vec()), Just("😱".as_bytes().to_vec()), Just("٣".as_bytes().to_vec()), Just(vec![b'/']), Just(vec![b':']), Just(vec![b'@']), Just(vec![b'[']), Just(vec![b'`']), Just(vec![b'{']),
        // a digit >= radix (if there is one)
        Just(if radix < 36 { vec![digit_char(radix as u8, 0, 0)] } else { vec![b'~'] }),
        Just(if radix < 36 { vec![digit_char(35, 1, 0)] } else { vec![b'!'] }),
        Just(if radix <= 10 { vec![b'0' + radix as u8] } else { vec![b'|'] }),
    ];
    let invalid = (valid.clone(), foreign, 0u8..4, any::<u16>(), any::<bool>(), 1usize..6).prop_map(|(v, f, place, at, short, keep)| {
        let mut v = v;
        if short {
            // keep the string short enough for the InvalidDigit requirement to bite
            let sign = matches!(v.first(), Some(b'+') | Some(b'-')) as usize;
            v.truncate(sign + keep);
        }
        let pos = match place {
            0 => 0,
            1 => v.len(),
            2 => (v.len() > 0) as usize,
            _ => at as usize % (v.len() + 1),
        };
        let mut s = v[..pos].to_vec();
        s.extend(f);
        s.extend(&v[pos..]);
        s
    });
    let special = prop_oneof![Just(Vec::new()), Just(vec![b'+']), Just(vec![b'-']), Just(vec![b'0']), Just(b"-0".to_vec()), Just(b"+0".to_vec()), Just(b"+-1".to_vec()), Just(b"--1".to_vec()), Just(b"-+1".to_vec()), Just(b"++1".to_vec())];
    prop_oneof![10 => valid, 5 => invalid, 1 => special].prop_map(Bytes).boxed()
}

fn radix_of(case_index: u32) -> u32 {
    2 + case_index % 35
}

fn eval_str<T: Int>(c: &(Bytes, u32), obs: &mut Obs) -> Result<(), String> {
    let (bytes, radix) = (&c.0 .0, c.1);
    let w = T::W as u64;
    let Ok(s) = std::str::from_utf8(bytes) else {
        return Ok(());
    };
    let model = parse_expect(bytes, radix, w, T::SIGNED);
    let cap = capacity(T::W, radix);
    let body_len = bytes.len() - matches!(bytes.first(), Some(b'+') | Some(b'-')) as usize;
    let leading_zeros = {
        let b = &bytes[bytes.len() - body_len..];
        b.len() > 1 && b[0] == b'0'
    };
    let near_bound = match &model {
        Expect::Ok(z) => zmax::<T>().sub(z).bit_len() <= 6 || z.sub(&zmin::<T>()).bit_len() <= 6,
        Expect::Err(Kind::PosOverflow) | Expect::Err(Kind::NegOverflow) => true,
        _ => false,
    };
    let foreign = matches!(model, Expect::AnyErr | Expect::Err(Kind::InvalidDigit));
    obs.nt_if(body_len + 1 >= cap || leading_zeros || foreign || near_bound);
    obs.label_if(body_len + 1 >= cap, "body length >= capacity - 1");
    obs.label_if(body_len > cap, "more digits than the capacity");
    obs.label_if(leading_zeros, "redundant leading zeros");
    obs.label_if(leading_zeros && body_len > cap && matches!(model, Expect::Ok(_)), "over-long with leading zeros but representable");
    obs.label_if(matches!(model, Expect::AnyErr), "foreign byte, long string (any Err)");
    obs.label_if(matches!(model, Expect::Err(Kind::InvalidDigit)), "must be InvalidDigit");
    obs.label_if(matches!(model, Expect::Err(Kind::PosOverflow)), "PosOverflow");
    obs.label_if(matches!(model, Expect::Err(Kind::NegOverflow)), "NegOverflow");
    obs.label_if(matches!(model, Expect::Err(Kind::Empty)), "Empty");
    obs.label_if(matches!(radix, 2 | 4 | 16), "radix 2/4/16 (bit-slicing path)");
    obs.label_if(near_bound && matches!(model, Expect::Ok(_)), "value within 6 bits of a bound");

    let got = outcome(|| T::from_str_radix(s, radix).map(|v| st(&v)).map_err(|e| kind_of(&e)));
    let got = match got {
        Outcome::Panic(m) => return Err(format!("from_str_radix({:?}, {}) panicked: {}", s, radix, m)),
        Outcome::Returned(r) => r,
    };
    match &model {
        Expect::Ok(z) => ck!(format!("from_str_radix({:?}, {})", s, radix), got.clone(), Ok::<Pat, Kind>(pz::<T>(z))),
        Expect::Err(k) => ck!(format!("from_str_radix({:?}, {})", s, radix), got.clone(), Err::<Pat, Kind>(*k)),
        Expect::AnyErr => ck!(format!("from_str_radix({:?}, {}) must be an error", s, radix), got.is_err(), true),
    }
    // sibling entry point: num_traits::Num::from_str_radix (anchored by C18) is the same function
    let nt = outcome(|| T::nt_from_str_radix(s, radix).map(|v| st(&v)).map_err(|e| kind_of(&e)));
    ck!("num_traits::Num::from_str_radix == from_str_radix", nt, Outcome::Returned(got.clone()));
    // parse_bytes = .ok() of that
    let pb = outcome(|| T::parse_bytes(bytes, radix).map(|v| st(&v)));
    ck!("parse_bytes == from_str_radix(..).ok()", pb, Outcome::Returned(got.clone().ok()));
    if radix == 10 {
        let fs = outcome(|| s.parse::<T>().map(|v| st(&v)).map_err(|e| kind_of(&e)));
        ck!("FromStr == from_str_radix(.., 10)", fs, Outcome::Returned(got.clone()));
    }
    if let Expect::Ok(z) = &model {
        ck!("parse_str_radix on valid input", oc(|| T::parse_str_radix(s, radix)), Outcome::Returned(pz::<T>(z)));
    }
    obs.note(|| format!("{:?} radix {} -> {:?}", s, radix, model));
    Ok(())
}

/// invalid UTF-8 is never accepted by parse_bytes
fn eval_bad_utf8<T: Int>(c: &(Bytes, u32), obs: &mut Obs) -> Result<(), String> {
    let (bytes, radix) = (&c.0 .0, c.1);
    if std::str::from_utf8(bytes).is_ok() {
        return eval_str::<T>(c, obs);
    }
    obs.nt();
    obs.label("invalid UTF-8 to parse_bytes");
    ck!("parse_bytes(invalid UTF-8)", outcome(|| T::parse_bytes(bytes, radix).map(|v| st(&v))), Outcome::Returned(None));
    Ok(())
}

fn eval_radix_range<T: Int>(c: &(Bytes, u32), obs: &mut Obs) -> Result<(), String> {
    let (bytes, radix) = (&c.0 .0, c.1);
    let Ok(s) = std::str::from_utf8(bytes) else { return Ok(()) };
    obs.nt();
    obs.label("out-of-range radix");
    // out-of-range radix: documented to panic; never a value
    let r = outcome(|| T::from_str_radix(s, radix).is_ok());
    ck!(format!("from_str_radix with radix {} returns no value", radix), matches!(r, Outcome::Returned(true)), false);
    let r = outcome(|| T::parse_bytes(bytes, radix).is_some());
    ck!(format!("parse_bytes with radix {} returns no value", radix), matches!(r, Outcome::Returned(true)), false);
    if radix > 256 || radix < 2 {
        let r = outcome(|| T::from_radix_be(&[1, 0], radix).is_some());
        ck!(format!("from_radix_be with radix {} returns no value", radix), matches!(r, Outcome::Returned(true)), false);
        let r = outcome(|| T::from_radix_le(&[1, 0], radix).is_some());
        ck!(format!("from_radix_le with radix {} returns no value", radix), matches!(r, Outcome::Returned(true)), false);
    }
    Ok(())
}

/// digit slices for from_radix_be / from_radix_le: (digits most significant first, radix)
fn digit_slices(sh: Shape, radix: u32) -> BoxedStrategy<Bytes> {
    let w = sh.bits();
    let cap = capacity(w, radix);
    let body = prop_oneof![
        5 => magnitudes(sh, radix).prop_map(move |z| z.to_radix_be(radix)),
        3 => (proptest::collection::vec(0u32..radix, cap.saturating_sub(2).max(1)..=cap + 2), any::<bool>()).prop_map(move |(ds, mf)| {
            let mut v: Vec<u8> = ds.iter().map(|&d| d as u8).collect();
            if mf { v[0] = (radix - 1) as u8; }
            v
        }),
        3 => prefix_structured(sh, radix),
        1 => Just(Vec::new()),
    ];
    let zeros = prop_oneof![6 => Just(0usize), 3 => 1usize..4, 3 => (0usize..6).prop_map(move |k| cap + k)];
    (zeros, body, prop_oneof![8 => Just(None), 2 => (any::<u16>(), 0u32..=255).prop_map(Some)])
        .prop_map(move |(nz, body, inject)| {
            let mut v = vec![0u8; nz];
            v.extend(body);
            if let Some((at, d)) = inject {
                if !v.is_empty() && radix < 256 {
                    let pos = at as usize % v.len();
                    v[pos] = (radix + d % (256 - radix)) as u8; // a digit >= radix
                }
            }
            Bytes(v)
        })
        .boxed()
}

fn eval_digits<T: Int>(c: &(Bytes, u32), obs: &mut Obs) -> Result<(), String> {
    let (msd, radix) = (&c.0 .0, c.1);
    let w = T::W as u64;
    let exp = digits_expect(msd, radix, w);
    let cap = capacity(T::W, radix);
    let bad_digit = msd.iter().any(|&d| d as u32 >= radix);
    let extra_zeros = msd.len() > 1 && msd[0] == 0;
    obs.nt_if(msd.len() + 1 >= cap || extra_zeros || bad_digit);
    obs.label_if(msd.len() > cap && exp.is_some(), "digit slice longer than capacity but representable (excess zeros)");
    obs.label_if(bad_digit, "digit >= radix");
    obs.label_if(exp.is_none() && !bad_digit, "value does not fit");
    obs.label_if(msd.is_empty(), "empty slice");
    obs.label_if(radix.is_power_of_two(), "power-of-two radix");
    // for signed types the result is the same bit pattern via from_bits (documented)
    let expect_pat = exp.as_ref().map(|z| Pat(z.to_le_wrapped((T::W / 8) as usize)));
    let be = outcome(|| T::from_radix_be(msd, radix).map(|v| st(&v)));
    ck!(format!("from_radix_be({:?}, {})", msd, radix), be, Outcome::Returned(expect_pat.clone()));
    let mut lsd = msd.clone();
    lsd.reverse();
    let le = outcome(|| T::from_radix_le(&lsd, radix).map(|v| st(&v)));
    ck!(format!("from_radix_le({:?}, {})", lsd, radix), le, Outcome::Returned(expect_pat.clone()));
    obs.note(|| format!("digits(msd first)={:?} radix={} -> {:?}", msd, radix, exp));
    Ok(())
}

fn jobs_for<U, I>(jobs: &mut Vec<Job>)
where
    U: UInt + Int<I = I>,
    I: SInt + Int<U = U>,
{
    let sh: Shape = U::shape();
    let sc = width_scale(U::W);
    let q = move |base: u32| ((base as f64 * sc).ceil() as u32).max(70);
    // radices are cycled deterministically: every radix 2..=36 in every run
    macro_rules! str_job {
        ($name:literal, $T:ty) => {
            jobs.push(Job::new(job_name::<U>($name), move |ctx| {
                let per_radix = (ctx.budget(q(QUICK), FACTOR) / 35).max(2);
                for radix in 2..=36u32 {
                    ctx.run(&format!("str_r{}", radix), per_radix, strings(sh, radix).prop_map(move |b| (b, radix)), eval_str::<$T>);
                }
                // bytes that are not UTF-8, for every radix: a high byte inserted or substituted anywhere, in
                // particular the high-bit twin (c | 0x80) of a valid digit character, also in very short strings
                let per_radix_bad = (ctx.budget(350, FACTOR) / 35).max(3);
                for radix in 2..=36u32 {
                    let bad = (strings(sh, radix), any::<u16>(), 0u8..4, any::<u8>(), proptest::collection::vec((0u32..radix, 0u8..3), 1..4)).prop_map(move |(mut b, at, mode, hb, short)| {
                        if mode == 2 {
                            b.0 = short.iter().enumerate().map(|(i, &(d, m))| digit_char(d as u8, m, i)).collect();
                        }
                        let len = b.0.len();
                        match mode {
                            0 => b.0.insert(at as usize % (len + 1), hb | 0x80),
                            3 if len > 0 => b.0[at as usize % len] = hb | 0x80,
                            _ if len > 0 => b.0[at as usize % len] |= 0x80,
                            _ => b.0.push(hb | 0x80),
                        }
                        (b, radix)
                    });
                    ctx.run(&format!("bad_utf8_r{}", radix), per_radix_bad, bad, eval_bad_utf8::<$T>);
                }
                let rr = (strings(sh, 10), prop_oneof![Just(0u32), Just(1), Just(37), Just(38), Just(255), Just(256), Just(257), Just(u32::MAX)]);
                ctx.run("radix_range", ctx.budget(40, FACTOR), rr, eval_radix_range::<$T>);
            }));
        };
    }
    str_job!("u/str", U);
    str_job!("i/str", I);
    // BYTE-ALPHABET SWEEP: every byte value 0..=255 in six short templates, for every radix 2..=36. The
    // digit alphabet of a radix is small, so which bytes are digits is decided completely instead of by
    // a list of plausible foreign characters (control bytes, case-folding twins c ^ 0x20, c | 0x80 ...)
    jobs.push(Job::new(job_name::<U>("alphabet"), move |ctx| {
        // complete on one configuration per digit type (the alphabet does not depend on N); elsewhere the
        // radices {2, 10, 11, 16, 36} with the first two templates
        let full = matches!((U::DIGIT_BITS, U::N), (8, 3) | (16, 2) | (32, 1) | (64, 2));
        let all = move || {
            (2..=36u32).filter(move |r| full || matches!(r, 2 | 10 | 11 | 16 | 36)).flat_map(move |radix| {
                (0..=255u8).flat_map(move |b| {
                    let t: [Vec<u8>; 6] = [vec![b], vec![b'1', b], vec![b, b'1'], vec![b'+', b], vec![b'-', b], vec![b'1', b'0', b, b'1']];
                    t.into_iter().take(if full { 6 } else { 2 }).map(move |v| (Bytes(v), radix))
                })
            })
        };
        ctx.enumerate("alphabet_u", "every byte 0..=255 in six short templates x every radix 2..=36", all(), eval_bad_utf8::<U>);
        ctx.enumerate("alphabet_i", "every byte 0..=255 in six short templates x every radix 2..=36", all(), eval_bad_utf8::<I>);
    }));
    macro_rules! dig_job {
        ($name:literal, $T:ty) => {
            jobs.push(Job::new(job_name::<U>($name), move |ctx| {
                let total = ctx.budget(q(QUICK), FACTOR);
                // every radix 2..=256 in every run
                let per_radix = (total / 255).max(1);
                for radix in 2..=256u32 {
                    ctx.run(&format!("digits_r{}", radix), per_radix + if matches!(radix, 2 | 4 | 8 | 10 | 16 | 32 | 64 | 128 | 256) { per_radix * 8 } else { 0 }, digit_slices(sh, radix).prop_map(move |b| (b, radix)), eval_digits::<$T>);
                }
            }));
        };
    }
    dig_job!("u/digits", U);
    dig_job!("i/digits", I);
    let _ = radix_of;
}

fn main() {
    let mut jobs = Vec::new();
    macro_rules! add {
        ($U:ty, $I:ty) => {
            jobs_for::<$U, $I>(&mut jobs);
        };
    }
    for_all_cfgs!(add);
    runner::main(
        Property {
            id: "C10",
            rule: "Grammar-based strings `sign? zeros{0..k} digits` for every radix 2..=36 in every run (cycled deterministically): digits come from the reference conversion of {0, 1, small, unsigned MAX, signed MAX, |MIN|, 2^W, 2^(W+1) (+-2), r^j +- 1, structured patterns} or are random digit strings of length capacity(r) + {-2..2}, or prefix-structured strings numeral(P) ++ m whole chunks (P a structured binary pattern, so the parser's running value has zero / extreme binary digits at a chunk boundary), optionally preceded by whole chunks of zeros; k up to 2*capacity + 2 redundant leading zeros; lower/upper/mixed case letters; invalid strings = one foreign byte (space, tab, newline, NUL, '_', '.', '+', '-', '/', ':', '@', '[', '`', '{', a digit >= radix, multi-byte UTF-8 incl. a non-ASCII decimal digit) inserted at start / after the sign / middle / end of an otherwise valid string (half of them truncated to 1..5 digits so that the InvalidDigit requirement applies); empty string, lone signs, double signs; byte strings that are not UTF-8 for parse_bytes, for every radix (a byte >= 0x80 inserted or substituted anywhere, in particular the high-bit twin c|0x80 of a valid digit character, also in strings of 1-3 digits); out-of-range radices {0, 1, 37, 38, 255, 256, 257, u32::MAX}. A deterministic BYTE-ALPHABET SWEEP decides the digit alphabet completely: every byte value 0..=255 in the templates [b], 1b, b1, +b, -b, 10b1 for every radix 2..=36 on one configuration per digit type (D8x3, D16x2, D32x1, D64x2), and in the templates [b], 1b for the radices {2, 10, 11, 16, 36} on every other configuration (a byte is accepted exactly when it is a digit of the radix, or a sign in first position followed by a digit). Digit slices for from_radix_be/le: every radix 2..=256 in every run, built the same way, with excess most-significant zero digits, one digit >= radix injected, empty slice. Oracle: parse_model returns the SET of acceptable outcomes (exact Ok(v); exact PosOverflow/NegOverflow/Empty; InvalidDigit for a lone sign or a foreign byte in a body of L bytes with r^L <= 2^(W-1); any Err for a foreign byte in a longer string); parse_bytes = .ok(); FromStr = radix 10; parse_str_radix on valid input; from_radix_*: Some(v) iff all digits < radix and v < 2^W. The model is compared with the primitives' from_str_radix on a fixed corpus at start-up. NON-TRIVIAL: body length >= capacity - 1, or redundant leading zeros, or a foreign byte present, or value within 6 bits of a bound / unrepresentable. distinct = distinct (profile, job, inputs) by 64-bit hash. num_traits::Num::from_str_radix is compared with the inherent function on every string (sibling entry point).",
            assumptions: &[
                "digits()/from_digits()/to_bits()/from_bits() are the trusted observation channel",
                "the error kind for LONG invalid strings is outside the property; parse_str_radix on invalid input is documented to panic and not called",
                "for an out-of-range radix only 'no value is returned' is asserted (the documented behaviour is a panic)",
            ],
        },
        jobs,
        &[("refint", vlib::refint::self_test), ("parse_model", vlib::parse_model::self_test)],
    );
}
