//! C11 — radix output is the canonical numeral and round-trips with parsing (DESIGN.md §4 C11)

use checks::api::{width_scale, Int, SInt, UInt};
use checks::common::*;
use checks::for_all_cfgs;
use proptest::prelude::*;
use vlib::gen::{self, Shape};
use vlib::runner::{self, outcome, Job, Obs, Outcome, Property};
use vlib::{ck, Pat, Z};

const QUICK: u32 = 1500;
const FACTOR: u32 = 20;

/// largest p with radix^p <= 2^bits
fn chunk_power(radix: u32, bits: u32) -> u32 {
    let mut p = 0;
    let mut x = Z::one();
    let lim = Z::pow2(bits as u64);
    loop {
        let nx = x.mul(&Z::from_u64(radix as u64));
        if nx > lim {
            return p.max(1);
        }
        x = nx;
        p += 1;
    }
}

fn values(sh: Shape, radix: u32) -> BoxedStrategy<Pat> {
    let w = sh.bits() as u64;
    let db = sh.digit_bits();
    let r = Z::from_u64(radix as u64);
    let p_full = chunk_power(radix, db);
    let p_half = chunk_power(radix, db / 2);
    let wrap = move |z: Z| Pat(z.to_le_wrapped(sh.bytes));
    let r2 = r.clone();
    let chunked = (prop_oneof![Just(p_full), Just(p_half), Just(1u32), Just(p_full + 1)], proptest::collection::vec(0u8..5, 1..40), gen::pattern(sh)).prop_map(move |(p, cs, noise)| {
        // sum c_i * (r^p)^i with many c_i in {0, 1, r^p - 1}: interior zero chunks
        let base = r2.pow_capped(p, 4096).unwrap();
        let nz = Z::from_le_unsigned(&noise.0);
        let mut z = Z::zero();
        for (i, c) in cs.iter().enumerate().rev() {
            let ci = match c {
                0 | 1 => Z::zero(),
                2 => Z::one(),
                3 => base.add_i(-1),
                _ => nz.shr_floor(7 * i as u64).divrem_trunc(&base).1,
            };
            z = z.mul(&base).add(&ci);
            if z.bit_len() > w {
                break;
            }
        }
        wrap(z.mod_2k(w))
    });
    let r3 = r.clone();
    let powers = (0u32..=sh.bits(), -1i64..=1).prop_map(move |(j, e)| {
        let z = r3.pow_capped(j, w + 8).unwrap_or_else(|| Z::pow2(w)).add_i(e);
        wrap(z.mod_2k(w))
    });
    // quotient-structured values: v = q * (r^p)^m + rem with q a structured BINARY pattern (zero /
    // extreme binary digits), so that the running quotient of the chunked conversion hits zero and
    // all-ones binary digits
    let r4 = r.clone();
    let quotient_structured = (prop_oneof![gen::digitwise(sh), gen::runs(sh), gen::short(sh)], prop_oneof![Just(p_full), Just(p_half)], 1u32..4, gen::pattern(sh), 0u8..3).prop_map(move |(q, p, m, rem, rsel)| {
        let scale = r4.pow_capped(p * m, w + 8).unwrap_or_else(|| Z::pow2(w));
        let room = w.saturating_sub(scale.bit_len());
        let zq = Z::from_le_unsigned(&q.0).mod_2k(room);
        let zr = match rsel {
            0 => Z::zero(),
            1 => scale.add_i(-1),
            _ => Z::from_le_unsigned(&rem.0).divrem_trunc(&scale).1,
        };
        wrap(zq.mul(&scale).add(&zr).mod_2k(w))
    });
    // NUMERAL-STRUCTURED values: the numeral in this radix is made of runs of one digit and of a block
    // repeated many times (repdigits, periodic numerals), so that consecutive chunks of the conversion
    // are equal without being zero or extreme
    let numeral_structured = (proptest::collection::vec((0u32..radix, 1usize..=(3 * p_full as usize).max(2), proptest::collection::vec(0u32..radix, 1..=(p_full as usize + 1)), 0u8..4), 1..6), any::<bool>()).prop_map(move |(parts, lead)| {
        let cap = (w as f64 / (radix as f64).log2()) as usize + 1;
        let mut digits: Vec<u8> = Vec::new();
        if lead {
            digits.push(1);
        }
        for (d, len, block, mode) in parts {
            match mode {
                0 | 1 => digits.extend(std::iter::repeat(d as u8).take(len * 4)),
                2 => {
                    for _ in 0..len {
                        digits.extend(block.iter().map(|&x| x as u8));
                    }
                }
                _ => digits.extend(block.iter().map(|&x| x as u8)),
            }
            if digits.len() >= cap {
                break;
            }
        }
        let mut z = Z::from_radix_be(&digits, radix);
        // too long for the type: drop most significant digits
        while z.bit_len() > w && !digits.is_empty() {
            digits.remove(0);
            z = Z::from_radix_be(&digits, radix);
        }
        wrap(z)
    });
    // binary-aligned small multiples of the conversion bases r^p (the divisor of the repeated short division)
    let bases: Vec<u64> = [p_full, p_half, 1, 2].iter().filter_map(|&p| r.pow_capped(p, 64).and_then(|b| b.to_u64())).filter(|&b| db == 64 || b < (1u64 << db)).collect();
    let bases = if bases.is_empty() { vec![1u64] } else { bases };
    let aligned = proptest::sample::select(bases).prop_flat_map(move |b| gen::base_aligned(sh, b));
    prop_oneof![
        4 => gen::pattern(sh),
        3 => aligned,
        3 => numeral_structured,
        4 => chunked,
        4 => quotient_structured,
        3 => powers,
        1 => (0u32..256).prop_map(move |x| wrap(Z::from_u64(x as u64))),
        1 => gen::boundary(sh),
    ]
    .boxed()
}

fn eval_out<T: Int>(c: &(Pat, u32), obs: &mut Obs) -> Result<(), String> {
    let x: T = ld(&c.0);
    let radix = c.1;
    let z = x.z();
    let zu = Z::from_le_unsigned(&c.0 .0); // two's-complement pattern
    let db = T::DIGIT_BITS;
    let be_exp = zu.to_radix_be(radix);
    let mut le_exp = be_exp.clone();
    le_exp.reverse();
    let p_half = chunk_power(radix, db / 2) as usize;
    let interior_zero_chunk = be_exp.len() > 2 * p_half && be_exp.windows(p_half).skip(1).any(|w| w.iter().all(|&d| d == 0));
    obs.nt_if(be_exp.len() >= 3);
    obs.label_if(interior_zero_chunk, "interior zero chunk");
    obs.label_if(radix.is_power_of_two() && db % radix.trailing_zeros() != 0, "power-of-two radix not dividing the digit size (inexact bit slicing)");
    obs.label_if(radix.is_power_of_two() && db % radix.trailing_zeros() == 0, "power-of-two radix dividing the digit size");
    obs.label_if(radix == 256, "radix 256");
    obs.label_if(!radix.is_power_of_two(), "generic division path");
    obs.label_if(z.is_neg(), "negative value");
    obs.label_if(zu.is_zero(), "zero");

    ck!(format!("to_radix_be({})", radix), outcome(|| x.to_radix_be(radix)), Outcome::Returned(be_exp.clone()));
    ck!(format!("to_radix_le({})", radix), outcome(|| x.to_radix_le(radix)), Outcome::Returned(le_exp.clone()));
    // round trip through the digit parsers
    ck!("from_radix_be(to_radix_be(x)) == x", outcome(|| T::from_radix_be(&x.to_radix_be(radix), radix).map(|v| st(&v))), Outcome::Returned(Some(c.0.clone())));
    ck!("from_radix_le(to_radix_le(x)) == x", outcome(|| T::from_radix_le(&x.to_radix_le(radix), radix).map(|v| st(&v))), Outcome::Returned(Some(c.0.clone())));
    if radix <= 36 {
        let s_exp = z.to_str_radix(radix);
        let s = outcome(|| x.to_str_radix(radix));
        ck!(format!("to_str_radix({})", radix), s, Outcome::Returned(s_exp.clone()));
        let back = outcome(|| T::from_str_radix(&x.to_str_radix(radix), radix).ok().map(|v| st(&v)));
        ck!("from_str_radix(to_str_radix(x)) == x", back, Outcome::Returned(Some(c.0.clone())));
        obs.note(|| format!("x={:?} radix={} -> {:?}", z, radix, s_exp));
    }
    Ok(())
}

fn eval_radix_range<T: Int>(c: &(Pat, u32), obs: &mut Obs) -> Result<(), String> {
    let x: T = ld(&c.0);
    let radix = c.1;
    obs.nt();
    obs.label("out-of-range radix");
    // documented to panic; for an out-of-range radix no digit sequence is a meaningful answer, so
    // the only thing asserted beyond "in-range radices never panic" is that these do panic, as
    // every caller relying on the documented contract expects
    if radix < 2 || radix > 36 {
        ck!(format!("to_str_radix({}) panics", radix), outcome(|| x.to_str_radix(radix)).is_panic(), true);
    }
    if radix < 2 || radix > 256 {
        ck!(format!("to_radix_be({}) panics", radix), outcome(|| x.to_radix_be(radix)).is_panic(), true);
        ck!(format!("to_radix_le({}) panics", radix), outcome(|| x.to_radix_le(radix)).is_panic(), true);
    }
    Ok(())
}

fn jobs_for<U, I>(jobs: &mut Vec<Job>)
where
    U: UInt + Int<I = I>,
    I: SInt + Int<U = U>,
{
    let sh: Shape = U::shape();
    let sc = width_scale(U::W);
    let q = move |base: u32| ((base as f64 * sc).ceil() as u32).max(260);
    macro_rules! out_job {
        ($name:literal, $T:ty) => {
            jobs.push(Job::new(job_name::<U>($name), move |ctx| {
                let total = ctx.budget(q(QUICK), FACTOR);
                let per = (total / 300).max(1);
                // every radix 2..=256 in every run; more weight on 2..=36 and on the powers of two
                for radix in 2..=256u32 {
                    let n = per * if radix <= 36 || radix.is_power_of_two() { 3 } else { 1 };
                    ctx.run(&format!("radix{}", radix), n, values(sh, radix).prop_map(move |p| (p, radix)), eval_out::<$T>);
                }
                let rr = (gen::pattern(sh), prop_oneof![Just(0u32), Just(1), Just(37), Just(257), Just(258), Just(u32::MAX), Just(1 << 16)]);
                ctx.run("radix_range", ctx.budget(20, FACTOR), rr, eval_radix_range::<$T>);
            }));
        };
    }
    out_job!("u/out", U);
    out_job!("i/out", I);
}

/// NUMERAL-LENGTH SWEEP. The length of a numeral changes at the powers of the radix, and a length
/// estimate derived from the bit length (a buffer size, a loop count, a first-chunk width) can be
/// off by one only at particular bit lengths. For a set of radices: r^k - 1, r^k, r^k + 1 for the
/// exponents k with r^k representable, and 2^b - 1, 2^b for the bit lengths b - all of them on types
/// up to 1088 bits, a spread selection on
/// wider types (four times denser in the thorough tier).
fn length_sweep(sh: Shape, signed: bool, full: bool) -> Vec<(Pat, u32)> {
    let w = sh.bits() as u64;
    let wide = w > 1100;
    let (dense_n, sparse_n, bstep) = if full { (480, 64, 10) } else { (120, 16, 41) };
    let maxbits = if signed { w - 1 } else { w };
    let mut out = Vec::new();
    let wrap = |z: &Z| Pat(z.to_le_wrapped(sh.bytes));
    for &(radix, dense) in &[(10u32, true), (3, false), (7, false), (36, false), (100, false), (255, false), (6, false), (12, false)] {
        let r = Z::from_u64(radix as u64);
        // exponents: all, or a spread selection
        let kmax = (maxbits as f64 / (radix as f64).log2()) as u32 + 1;
        let stride = if !wide { 1 } else if dense { (kmax / dense_n).max(1) } else { (kmax / sparse_n).max(1) };
        let mut p = Z::one();
        let mut k = 0u32;
        while p.bit_len() <= maxbits {
            if k % stride == 0 || k + 4 >= kmax {
                for e in [-1i64, 0, 1] {
                    let v = p.add_i(e);
                    if v.bit_len() <= maxbits {
                        out.push((wrap(&v), radix));
                        if signed {
                            out.push((wrap(&v.neg()), radix));
                        }
                    }
                }
            }
            p = p.mul(&r);
            k += 1;
        }
    }
    // every bit length: the largest and the smallest value of that length, in decimal (and base 3 on the narrower types)
    let bstride = if wide { bstep } else { 1 };
    for b in (1..=maxbits).filter(|b| b % bstride == 0 || *b + 3 >= maxbits) {
        let hi = Z::pow2(b).add_i(-1);
        let lo = Z::pow2(b - 1);
        out.push((wrap(&hi), 10));
        out.push((wrap(&lo), 10));
        if signed {
            out.push((wrap(&hi.neg()), 10));
        }
        if !wide {
            out.push((wrap(&hi), 3));
        }
    }
    out
}

fn sweep_jobs<U, I>(jobs: &mut Vec<Job>)
where
    U: UInt + Int<I = I>,
    I: SInt + Int<U = U>,
{
    let sh: Shape = U::shape();
    jobs.push(Job::new(job_name::<U>("length_sweep/u"), move |ctx| {
        let full = ctx.tier() == vlib::Tier::Thorough;
        ctx.enumerate("u_len", "r^k - 1, r^k, r^k + 1 for 8 radices and 2^b - 1, 2^(b-1) for the bit lengths b", length_sweep(sh, false, full).into_iter(), eval_out::<U>);
    }));
    jobs.push(Job::new(job_name::<U>("length_sweep/i"), move |ctx| {
        let full = ctx.tier() == vlib::Tier::Thorough;
        ctx.enumerate("i_len", "r^k - 1, r^k, r^k + 1 (both signs) for 8 radices and 2^b - 1, 2^(b-1) for the bit lengths b", length_sweep(sh, true, full).into_iter(), eval_out::<I>);
    }));
}

fn exhaustive(jobs: &mut Vec<Job>) {
    type U8 = bnum::BUintD8<1>;
    type I8 = bnum::BIntD8<1>;
    jobs.push(Job::new("small/exhaustive8@D8x1", |ctx| {
        let all = || (0..=255u8).flat_map(|a| (2..=256u32).map(move |r| (Pat(vec![a]), r)));
        ctx.enumerate("u_out", "all values x all radices 2..=256 of BUintD8<1>", all(), eval_out::<U8>);
        ctx.enumerate("i_out", "all values x all radices 2..=256 of BIntD8<1>", all(), eval_out::<I8>);
    }));
}

fn main() {
    let mut jobs = Vec::new();
    macro_rules! add {
        ($U:ty, $I:ty) => {
            jobs_for::<$U, $I>(&mut jobs);
            sweep_jobs::<$U, $I>(&mut jobs);
        };
    }
    for_all_cfgs!(add);
    exhaustive(&mut jobs);
    runner::main(
        Property {
            id: "C11",
            rule: "Every radix 2..=256 in every run (radices <= 36 and powers of two weighted x3). Values: structured W-bit patterns; sums c_i*(r^p)^i with many chunks c_i in {0, 1, r^p-1} for the chunk sizes p implied by the digit size and half the digit size (interior zero chunks); r^j and r^j+-1; quotient-structured values q*(r^p)^m + rem with q a structured binary pattern (zero / extreme binary digits in the running quotient); single-digit values; boundary values (MAX, MIN, -1, 0); numeral-structured values (the numeral in the radix under test is made of runs of one digit and of a block repeated many times); values built from whole-digit or half-digit binary chunks that are small multiples of the conversion base r^p or miss it by one (the partial dividend of a short-division step equals the divisor). Oracle: the canonical numeral from the reference integer by repeated single-limb division (lowercase, no leading zeros, '0' for zero, '-' + magnitude for negatives; the two's-complement pattern for to_radix_be/le of signed types), plus the round trips through from_str_radix / from_radix_be / from_radix_le; out-of-range radices {0, 1, 37, 257, 258, 65536, u32::MAX} panic and in-range ones never do. A deterministic NUMERAL-LENGTH SWEEP per configuration adds r^k - 1, r^k, r^k + 1 (both signs for signed types) for every exponent k with r^k representable and the radices {10, 3, 6, 7, 12, 36, 100, 255}, and 2^b - 1, 2^(b-1) for every bit length b in decimal (base 3 as well up to 1088 bits) - all exponents and bit lengths on types up to 1088 bits, a spread selection on wider types (quick tier: about 120 decimal exponents, 16 exponents of the other radices, every 41st bit length; thorough tier: four times as many); these are the inputs on which a length estimate derived from the bit length is off by one. NON-TRIVIAL: the output has >= 3 digits. distinct = distinct (profile, job, inputs) by 64-bit hash. 8-bit configuration: all values x all radices.",
            assumptions: &[
                "digits()/from_digits()/to_bits()/from_bits() are the trusted observation channel",
                "reference numerals by repeated division of the reference integer by the radix (self-tested against the primitives' formatting)",
            ],
        },
        jobs,
        &[("refint", vlib::refint::self_test)],
    );
}
