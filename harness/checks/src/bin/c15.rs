//! C15 — byte-slice decoding and endianness helpers denote the right value (DESIGN.md §4 C15)
//! (stable half; the nightly-only *_bytes methods are checked by checks-nightly/src/bin/c15n.rs)

use checks::api::{Int, SInt, UInt};
use checks::common::*;
use checks::for_all_cfgs;
use proptest::prelude::*;
use vlib::case::Bytes;
use vlib::gen::{self, Shape};
use vlib::runner::{self, outcome, Job, Obs, Outcome, Property};
use vlib::{ck, Pat, Z};

const QUICK: u32 = 2500;
const FACTOR: u32 = 20;

/// big-endian byte strings of length 0..=2*BYTES+2
fn be_slices(sh: Shape) -> BoxedStrategy<Bytes> {
    let nb = sh.bytes;
    let db = sh.digit_bytes;
    let lens = prop_oneof![
        3 => 0..=nb,
        3 => nb..=(2 * nb + 2),
        2 => Just(nb),
        2 => (0usize..=2, 0usize..db.max(1) + 1).prop_map(move |(k, r)| (k * db + r).min(2 * nb + 2)),
        1 => prop_oneof![Just(0usize), Just(1), Just(nb - 1), Just(nb + 1), Just(2 * nb), Just(2 * nb + 2)],
    ];
    let boundary = prop_oneof![Just(0x00u8), Just(0x01), Just(0x7f), Just(0x80), Just(0xff), any::<u8>()];
    (lens, gen::pattern(sh), 0u8..8, boundary, any::<u8>(), any::<u16>())
        .prop_map(move |(len, payload, excess_class, bbyte, foreign, fpos)| {
            // payload: the value bytes, big-endian
            let mut be: Vec<u8> = payload.0.iter().rev().cloned().collect();
            if len <= nb {
                let mut s = be[nb - len..].to_vec();
                if !s.is_empty() && excess_class % 2 == 0 {
                    s[0] = bbyte;
                }
                return Bytes(s);
            }
            let k = len - nb;
            if excess_class % 3 != 2 {
                be[0] = bbyte;
            }
            let fill = match excess_class {
                0 | 3 => 0x00u8,
                1 | 4 => 0xff,
                _ => {
                    // pad according to the sign of the first significant byte
                    if be[0] & 0x80 != 0 { 0xff } else { 0x00 }
                }
            };
            let mut s = vec![fill; k];
            if excess_class >= 6 {
                // every excess digit independently pure 0x00 or pure 0xFF (a whole digit of the opposite padding)
                let mut bits = fpos as u32 | ((foreign as u32) << 16);
                let mut end = k;
                while end > 0 {
                    let start = end.saturating_sub(db);
                    let b = if bits & 1 == 1 { 0xffu8 } else { 0x00 };
                    for x in &mut s[start..end] {
                        *x = b;
                    }
                    bits = bits.rotate_right(1);
                    end = start;
                }
            } else if excess_class >= 3 {
                // one foreign byte at either end (or inside) of the excess region
                let pos = match fpos % 3 {
                    0 => 0,
                    1 => k - 1,
                    _ => fpos as usize % k,
                };
                s[pos] = foreign;
            }
            s.extend(be);
            Bytes(s)
        })
        .boxed()
}

fn eval_slices<T: Int>(c: &Bytes, obs: &mut Obs) -> Result<(), String> {
    let be = &c.0;
    let nb = (T::W / 8) as usize;
    let db = (T::DIGIT_BITS / 8) as usize;
    let z = Z::from_be(be, T::SIGNED);
    let exp = if z.fits(T::W as u64, T::SIGNED) { Some(pz::<T>(&z)) } else { None };
    obs.nt_if(be.len() != nb || be.len() % db != 0);
    obs.label_if(be.len() < nb, "shorter than BYTES (zero / sign extension)");
    obs.label_if(be.len() > nb, "longer than BYTES");
    obs.label_if(be.len() > nb && exp.is_some(), "longer, excess is pure padding -> Some");
    obs.label_if(be.len() > nb && exp.is_none(), "longer, not representable -> None");
    obs.label_if(be.len() % db != 0, "length not a multiple of the digit size");
    obs.label_if(be.is_empty(), "empty slice");
    obs.label_if(T::SIGNED && !be.is_empty() && be[0] & 0x80 != 0, "negative (sign from the most significant byte)");
    ck!(format!("from_be_slice({:?})", c), outcome(|| T::from_be_slice(be).map(|v| st(&v))), Outcome::Returned(exp.clone()));
    let le: Vec<u8> = be.iter().rev().cloned().collect();
    ck!(format!("from_le_slice(reversed {:?})", c), outcome(|| T::from_le_slice(&le).map(|v| st(&v))), Outcome::Returned(exp.clone()));
    obs.note(|| format!("be bytes {:?} -> {:?}", c, exp));
    Ok(())
}

fn eval_swap<T: Int>(c: &Pat, obs: &mut Obs) -> Result<(), String> {
    let x: T = ld(c);
    obs.nt_if(c.0.iter().rev().ne(c.0.iter()));
    // this target is little-endian: the stored (memory) bytes of to_be(x) are the big-endian bytes of x
    let rev = Pat(c.0.iter().rev().cloned().collect());
    if cfg!(target_endian = "little") {
        ck!("to_be reverses the byte order on a little-endian target", st(&x.to_be()), rev.clone());
        ck!("from_be reverses the byte order on a little-endian target", st(&T::from_be(x)), rev.clone());
        ck!("to_le is the identity on a little-endian target", st(&x.to_le()), c.clone());
        ck!("from_le is the identity on a little-endian target", st(&T::from_le(x)), c.clone());
    }
    ck!("from_be(to_be(x)) == x", st(&T::from_be(x.to_be())), c.clone());
    ck!("from_le(to_le(x)) == x", st(&T::from_le(x.to_le())), c.clone());
    Ok(())
}

fn jobs_for<U, I>(jobs: &mut Vec<Job>)
where
    U: UInt + Int<I = I>,
    I: SInt + Int<U = U>,
{
    let sh: Shape = U::shape();
    let big = U::W > 1100;
    jobs.push(Job::new(job_name::<U>("u/slices"), move |ctx| {
        ctx.run("slices", ctx.budget(if big { QUICK / 4 } else { QUICK }, FACTOR), be_slices(sh), eval_slices::<U>);
    }));
    jobs.push(Job::new(job_name::<U>("i/slices"), move |ctx| {
        ctx.run("slices", ctx.budget(if big { QUICK / 4 } else { QUICK }, FACTOR), be_slices(sh), eval_slices::<I>);
    }));
    jobs.push(Job::new(job_name::<U>("to_from_be_le"), move |ctx| {
        ctx.run("swap_u", ctx.budget(QUICK / 4, FACTOR), gen::pattern(sh), eval_swap::<U>);
        ctx.run("swap_i", ctx.budget(QUICK / 4, FACTOR), gen::pattern(sh), eval_swap::<I>);
    }));
}

fn exhaustive(jobs: &mut Vec<Job>) {
    type U8 = bnum::BUintD8<1>;
    type I8 = bnum::BIntD8<1>;
    type U16 = bnum::BUintD16<1>;
    type I16 = bnum::BIntD16<1>;
    type I16B = bnum::BIntD8<2>;
    jobs.push(Job::new("small/exhaustive_short_slices", |ctx| {
        // every byte string of length 0, 1, 2 and every 3-byte string whose first byte is in a boundary set
        let all = || {
            std::iter::once(Vec::new())
                .chain((0..=255u8).map(|a| vec![a]))
                .chain((0..=255u8).flat_map(|a| (0..=255u8).map(move |b| vec![a, b])))
                .chain([0u8, 1, 0x7f, 0x80, 0xfe, 0xff].into_iter().flat_map(|a| (0..=255u8).flat_map(move |b| [0u8, 1, 0x7f, 0x80, 0xff].into_iter().map(move |c| vec![a, b, c]))))
                .map(Bytes)
        };
        ctx.enumerate("u8", "all slices of length <= 2 and a 3-byte grid into BUintD8<1>", all(), eval_slices::<U8>);
        ctx.enumerate("i8", "same into BIntD8<1>", all(), eval_slices::<I8>);
        ctx.enumerate("u16", "same into BUintD16<1>", all(), eval_slices::<U16>);
        ctx.enumerate("i16", "same into BIntD16<1>", all(), eval_slices::<I16>);
        ctx.enumerate("i16b", "same into BIntD8<2>", all(), eval_slices::<I16B>);
    }));
}

fn main() {
    let mut jobs = Vec::new();
    macro_rules! add {
        ($U:ty, $I:ty) => {
            jobs_for::<$U, $I>(&mut jobs);
        };
    }
    for_all_cfgs!(add);
    exhaustive(&mut jobs);
    runner::main(
        Property {
            id: "C15",
            rule: "Byte strings of length 0..=2*BYTES+2 (every residue modulo the digit size; shorter, equal, longer than BYTES), built big-endian as [excess region][first significant byte][payload]: excess pure 0x00 / pure 0xFF / matching the sign / with one foreign byte at its first, last or a random position / every excess digit independently pure 0x00 or pure 0xFF; first significant byte in {0x00, 0x01, 0x7F, 0x80, 0xFF, random}; structured payload; the little-endian slice is the reversal. Oracle: the bytes read as an unsigned (U) or two's-complement (I, sign from the most significant byte) number in the reference integer; Some(v) iff it fits; empty slice = 0. to_be/from_be reverse and to_le/from_le keep the byte order of the pattern on this little-endian target and are mutually inverse. The nightly half (checks-nightly) checks to_/from_{be,le,ne}_bytes: big-/little-endian two's-complement bytes, exact inverses in both directions, ne = le. NON-TRIVIAL: slice length != BYTES or not a multiple of the digit size; for the swaps: a non-palindromic pattern. distinct = distinct (profile, job, inputs) by 64-bit hash. Exhaustive: all byte strings of length <= 2 and a 3-byte grid into the 8- and 16-bit types.",
            assumptions: &[
                "digits()/from_digits()/to_bits()/from_bits() are the trusted observation channel",
                "x86-64 is little-endian: the cfg(target_endian = \"big\") arms are never compiled and are not decided",
            ],
        },
        jobs,
        &[("refint", vlib::refint::self_test)],
    );
}
