//! C19 — num_traits numeric conversions return Some exactly for representable values (DESIGN.md §4 C19)

use bnum::cast::{As, CastFrom};
use checks::api::{Int, SInt, UInt, Val};
use checks::common::*;
use checks::for_all_cfgs;
use num_traits::{AsPrimitive, FromPrimitive, ToPrimitive};
use proptest::prelude::*;
use vlib::float_model::{self as fm, Fmt, F32, F64};
use vlib::gen::{self, Shape};
use vlib::runner::{self, outcome, Job, Obs, Outcome, Property};
use vlib::{ck, Pat, Z};

const QUICK: u32 = 300;
const FACTOR: u32 = 20;

fn near_bound<T: Int>(z: &Z) -> bool {
    let one = Z::one();
    z.sub(&zmin::<T>()).abs() <= one || z.sub(&zmax::<T>()).abs() <= one || !fits::<T>(z)
}

fn expected<T: Int>(z: &Z) -> Option<Pat> {
    if fits::<T>(z) {
        Some(pz::<T>(z))
    } else {
        None
    }
}

/// FromPrimitive::from_<int> for all twelve primitive integer types, on one value of each
fn eval_from_int<T: Int + FromPrimitive>(c: &Pat, obs: &mut Obs) -> Result<(), String> {
    // c is a 128-bit pattern; every primitive type takes its low bits
    macro_rules! one {
        ($($f:ident : $p:ty),*) => {$(
            {
                let nb = std::mem::size_of::<$p>();
                let v = <$p>::from_le_bytes(c.0[..nb].try_into().unwrap());
                let z = <$p as Val>::vz(&v);
                obs.nt_if(near_bound::<T>(&z));
                obs.label_if(!fits::<T>(&z), "source value not representable -> None");
                obs.label_if(<$p>::BITS > T::W, "source wider than target");
                ck!(format!("FromPrimitive::{}({})", stringify!($f), v), outcome(|| T::$f(v).map(|x| st(&x))), Outcome::Returned(expected::<T>(&z)));
            }
        )*};
    }
    one!(from_u8: u8, from_u16: u16, from_u32: u32, from_u64: u64, from_u128: u128, from_usize: usize,
         from_i8: i8, from_i16: i16, from_i32: i32, from_i64: i64, from_i128: i128, from_isize: isize);
    Ok(())
}

/// 128-bit source patterns: target bounds (+-1) embedded, primitive bounds, structured
fn int_sources(tgt: Shape) -> BoxedStrategy<Pat> {
    let src = Shape::new(128, 64);
    prop_oneof![
        5 => cast_sources(src, tgt),
        2 => prop_oneof![Just(0i128), Just(-1), Just(1), Just(i8::MIN as i128), Just(i8::MAX as i128 + 1), Just(u8::MAX as i128), Just(u8::MAX as i128 + 1), Just(i16::MIN as i128), Just(u16::MAX as i128 + 1),
                         Just(i32::MIN as i128), Just(u32::MAX as i128), Just(u32::MAX as i128 + 1), Just(i64::MIN as i128), Just(i64::MAX as i128), Just(u64::MAX as i128), Just(u64::MAX as i128 + 1), Just(i128::MIN), Just(i128::MAX)]
            .prop_map(|v| Pat(v.to_le_bytes().to_vec())),
        1 => any::<i128>().prop_map(|v| Pat(v.to_le_bytes().to_vec())),
    ]
    .boxed()
}

fn float_bits(f: Fmt, w: u32) -> BoxedStrategy<u64> {
    let bias = f.bias();
    let emax = (1i64 << f.exp_bits) - 1;
    let p = f.p as i64;
    let w = w as i64;
    let exps = prop_oneof![
        2 => Just(0i64),
        4 => (-3i64..=3).prop_map(move |d| bias + d),
        2 => (-2i64..=2).prop_map(move |d| bias + p - 1 + d),
        6 => (-3i64..=2).prop_map(move |d| bias + w + d),
        2 => (0i64..=w + 2).prop_map(move |d| bias + d),
        1 => Just(emax - 1),
        2 => Just(emax),
        1 => (0i64..emax).prop_map(|e| e),
    ];
    let frac_bits = f.p - 1;
    let mants = prop_oneof![
        3 => Just(0u64),
        1 => Just(1u64),
        2 => Just(1u64 << (frac_bits - 1)),
        2 => Just((1u64 << frac_bits) - 1),
        1 => (0u32..frac_bits).prop_map(|k| 1u64 << k),
        4 => any::<u64>().prop_map(move |x| x & ((1u64 << frac_bits) - 1)),
    ];
    let total = f.total_bits();
    (any::<bool>(), exps, mants).prop_map(move |(neg, e, m)| ((neg as u64) << (total - 1)) | ((e.clamp(0, emax) as u64) << frac_bits) | m).boxed()
}

fn eval_from_float<T: Int + FromPrimitive>(c: &(u64, bool), obs: &mut Obs) -> Result<(), String> {
    let (bits, is32) = *c;
    let f = if is32 { F32 } else { F64 };
    let bits = if is32 { bits & 0xffff_ffff } else { bits };
    let got = if is32 { outcome(|| T::from_f32(f32::from_bits(bits as u32)).map(|v| st(&v))) } else { outcome(|| T::from_f64(f64::from_bits(bits)).map(|v| st(&v))) };
    let name = if is32 { "from_f32" } else { "from_f64" };
    let d = fm::decode(bits, f);
    let t = fm::trunc(bits, f);
    let frac = fm::has_fraction(bits, f);
    match (&d, &t) {
        (fm::Decoded::Finite { neg, .. }, Some(t)) => {
            let in_range = fits::<T>(t);
            obs.nt_if(frac || t.abs().bit_len() + 2 >= T::W as u64 || !in_range);
            obs.label_if(!in_range, "truncated value out of range -> None");
            obs.label_if(frac, "fractional part");
            if !T::SIGNED && *neg {
                if t.is_zero() {
                    // negative float in (-1, 0] for an unsigned target: the statement fixes neither
                    // Some(0) nor None; both are accepted, anything else is a violation
                    obs.label("unsigned target, float in (-1, -0.0]: Some(0) or None accepted");
                    let ok = matches!(&got, Outcome::Returned(None)) || got == Outcome::Returned(Some(pz::<T>(&Z::zero())));
                    ck!(format!("{name}({:#x}) is Some(0) or None", bits), ok, true);
                } else {
                    obs.label("negative float, unsigned target -> None");
                    ck!(format!("{name}({:#x})", bits), got, Outcome::Returned(None));
                }
            } else {
                ck!(format!("{name}({:#x})", bits), got, Outcome::Returned(if in_range { Some(pz::<T>(t)) } else { None }));
            }
        }
        _ => {
            obs.nt();
            obs.label("NaN / infinity -> None");
            ck!(format!("{name}({:#x}) (non-finite)", bits), got, Outcome::Returned(None));
        }
    }
    Ok(())
}

fn eval_to_prim<T: Int + ToPrimitive>(c: &Pat, obs: &mut Obs) -> Result<(), String>
where
    f32: CastFrom<T>,
    f64: CastFrom<T>,
{
    let x: T = ld(c);
    let z = x.z();
    macro_rules! one {
        ($($f:ident : $p:ty),*) => {$(
            {
                let pw = <$p as Val>::VW as u64;
                let ps = <$p as Val>::VSIGNED;
                let e = if z.fits(pw, ps) { Some(Pat(z.to_le_wrapped((pw / 8) as usize))) } else { None };
                let lo = Z::min_of(pw, ps);
                let hi = Z::max_of(pw, ps);
                obs.nt_if(z.sub(&lo).abs() <= Z::one() || z.sub(&hi).abs() <= Z::one());
                ck!(format!("ToPrimitive::{}", stringify!($f)), outcome(|| x.$f().map(|v| Pat(v.to_le_bytes().to_vec()))), Outcome::Returned(e));
            }
        )*};
    }
    one!(to_u8: u8, to_u16: u16, to_u32: u32, to_u64: u64, to_u128: u128, to_usize: usize, to_i8: i8, to_i16: i16, to_i32: i32, to_i64: i64, to_i128: i128, to_isize: isize);
    ck!("ToPrimitive::to_f32", outcome(|| x.to_f32().map(|v| v.to_bits() as u64)), Outcome::Returned(Some(fm::int_to_float(&z, F32))));
    ck!("ToPrimitive::to_f64", outcome(|| x.to_f64().map(|v| v.to_bits())), Outcome::Returned(Some(fm::int_to_float(&z, F64))));
    obs.label_if(z.bit_len() > 53, "more than 53 significant bits (to_f64 rounds)");
    Ok(())
}

use checks::siblings::as_primitive_forms as eval_as_prim;

macro_rules! jobs_for {
    ($jobs:ident, $U:ty, $I:ty) => {{
        let sh: Shape = <$U as Int>::shape();
        let w = <$U as Int>::W;
        $jobs.push(Job::new(job_name::<$U>("from_int"), move |ctx| {
            ctx.run("u", ctx.budget(QUICK * 2, FACTOR), int_sources(sh), eval_from_int::<$U>);
            ctx.run("i", ctx.budget(QUICK * 2, FACTOR), int_sources(sh), eval_from_int::<$I>);
        }));
        $jobs.push(Job::new(job_name::<$U>("from_float"), move |ctx| {
            ctx.run("u_f32", ctx.budget(QUICK * 2, FACTOR), float_bits(F32, w).prop_map(|b| (b, true)), eval_from_float::<$U>);
            ctx.run("u_f64", ctx.budget(QUICK * 2, FACTOR), float_bits(F64, w).prop_map(|b| (b, false)), eval_from_float::<$U>);
            ctx.run("i_f32", ctx.budget(QUICK * 2, FACTOR), float_bits(F32, w - 1).prop_map(|b| (b, true)), eval_from_float::<$I>);
            ctx.run("i_f64", ctx.budget(QUICK * 2, FACTOR), float_bits(F64, w - 1).prop_map(|b| (b, false)), eval_from_float::<$I>);
        }));
        $jobs.push(Job::new(job_name::<$U>("to_prim"), move |ctx| {
            // values around every primitive's bounds, embedded in the bnum type
            let vals = move || {
                prop_oneof![
                    3 => gen::pattern(sh),
                    4 => (prop_oneof![Just(8u64), Just(16), Just(32), Just(64), Just(128)], any::<bool>(), -2i64..=2, any::<bool>()).prop_map(move |(pw, signed, e, low)| {
                        let b = if signed { if low { Z::pow2(pw - 1).neg() } else { Z::pow2(pw - 1).add_i(-1) } } else if low { Z::zero() } else { Z::pow2(pw).add_i(-1) };
                        Pat(b.add_i(e).to_le_wrapped(sh.bytes))
                    }),
                ]
            };
            ctx.run("u", ctx.budget(QUICK * 2, FACTOR), vals(), eval_to_prim::<$U>);
            ctx.run("i", ctx.budget(QUICK * 2, FACTOR), vals(), eval_to_prim::<$I>);
            // to_f32 / to_f64 have to round: kept mantissa | discarded tail at every bit length (exact ties, just above / below)
            ctx.run("u_round", ctx.budget(QUICK, FACTOR), checks::common::float_rounding_ints(sh, false), eval_to_prim::<$U>);
            ctx.run("i_round", ctx.budget(QUICK, FACTOR), checks::common::float_rounding_ints(sh, true), eval_to_prim::<$I>);
        }));
        $jobs.push(Job::new(job_name::<$U>("as_primitive"), move |ctx| {
            let s = move || (gen::pattern(sh), int_sources(sh), prop_oneof![any::<u64>(), float_bits(F64, w)]);
            ctx.run("u", ctx.budget(QUICK, FACTOR), s(), eval_as_prim::<$U>);
            ctx.run("i", ctx.budget(QUICK, FACTOR), s(), eval_as_prim::<$I>);
        }));
    }};
}

fn exhaustive(jobs: &mut Vec<Job>) {
    type U8 = bnum::BUintD8<1>;
    type I8 = bnum::BIntD8<1>;
    type U24 = bnum::BUintD8<3>;
    type I24 = bnum::BIntD8<3>;
    jobs.push(Job::new("small/exhaustive", |ctx| {
        // every 16-bit source value (as u16 and i16 and sign-/zero-extended wider types) into the 8- and 24-bit targets
        let all = || (0..=u16::MAX).flat_map(|v| [v as i16 as i128, v as i128, (v as i128) << 8, -((v as i128) << 8)].into_iter()).map(|x| Pat(x.to_le_bytes().to_vec()));
        ctx.enumerate("from_int_u8", "all 16-bit patterns (4 embeddings) into BUintD8<1>", all(), eval_from_int::<U8>);
        ctx.enumerate("from_int_i8", "same into BIntD8<1>", all(), eval_from_int::<I8>);
        ctx.enumerate("from_int_u24", "same into BUintD8<3>", all(), eval_from_int::<U24>);
        ctx.enumerate("from_int_i24", "same into BIntD8<3>", all(), eval_from_int::<I24>);
        ctx.enumerate("to_prim_u8", "all values of BUintD8<1>", (0..=255u8).map(|a| Pat(vec![a])), eval_to_prim::<U8>);
        ctx.enumerate("to_prim_i8", "all values of BIntD8<1>", (0..=255u8).map(|a| Pat(vec![a])), eval_to_prim::<I8>);
    }));
}

fn main() {
    let mut jobs: Vec<Job> = Vec::new();
    macro_rules! add {
        ($U:ty, $I:ty) => {
            jobs_for!(jobs, $U, $I);
        };
    }
    for_all_cfgs!(add);
    exhaustive(&mut jobs);
    runner::main(
        Property {
            id: "C19",
            rule: "FromPrimitive: one 128-bit source pattern per case is read as each of the twelve primitive integer types (low bits), with patterns built from the target's MAX, MAX+1, MIN, MIN-1, 0, -1 (+-2, shifted by multiples of 2^W), every primitive's own MIN/MAX(+1), structured and uniform values; all 72 targets incl. the narrow 8/16/24/32/40/48-bit ones. from_f32/from_f64: bit patterns sign x exponent class {zero/subnormal, around 1.0, around 2^(p-1), bias+W-3..bias+W+2 (the floats adjacent to 2^W and 2^(W-1)), uniform in range, largest finite, inf/NaN} x mantissa class {0, 1, MSB, all ones, single bit, uniform}. ToPrimitive: structured values, every primitive's bounds +-2 embedded in the bnum type, and [kept mantissa | discarded tail] values at every bit length (exact ties with odd / even / all-ones mantissa, just above, just below) for to_f32 / to_f64. Oracle: Some(v) with equal value iff representable (reference integer range test); floats: finite, truncated value in range and (unsigned) non-negative => Some(trunc), NaN/inf/out of range => None, both Some(0) and None accepted for negative floats in (-1, -0.0] into unsigned targets (the statement fixes neither); to_f32/to_f64 = Some(nearest float) by the C14 float model; AsPrimitive::as_ (bnum -> 12 ints + 2 floats, 16 primitive/char/bool/float types -> bnum, bnum -> bnum of the same digit family with N, 1 and 3 digits) equals the As cast (differential). Never panics. NON-TRIVIAL: source value outside the target range or within 1 of a bound; floats with a fractional part or |f| >= 2^(W-2) or non-finite; every AsPrimitive case. distinct = distinct (profile, job, inputs) by 64-bit hash. Exhaustive: all 16-bit patterns (4 embeddings) into the 8- and 24-bit targets, all 8-bit values through ToPrimitive.",
            assumptions: &[
                "float model validated against `as` on primitives on every run",
                "usize/isize are 64 bits wide on this target",
            ],
        },
        jobs,
        &[("refint", vlib::refint::self_test), ("float_model", vlib::float_model::self_test)],
    );
}
