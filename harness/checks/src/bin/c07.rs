//! C07 — comparison, equality and hashing agree with the numeric value (DESIGN.md §4 C07)

use checks::api::{Int, SInt, UInt};
use checks::common::*;
use checks::for_all_cfgs;
use proptest::prelude::*;
use std::cmp::Ordering;
use std::collections::hash_map::DefaultHasher;
use std::hash::{Hash, Hasher};
use vlib::gen::{self, Shape};
use vlib::runner::{self, Job, Obs, Property};
use vlib::{ck, Pat, Z};

const QUICK: u32 = 1500;
const FACTOR: u32 = 20;

fn h<T: Hash>(x: &T) -> u64 {
    let mut s = DefaultHasher::new();
    x.hash(&mut s);
    s.finish()
}

/// pairs built for comparison: equal, differing in exactly one digit, sharing top digits,
/// opposite top bit, a +- 1, zero top digit
fn cmp_pairs(sh: Shape) -> BoxedStrategy<(Pat, Pat)> {
    let n = sh.n();
    let db = sh.digit_bytes;
    prop_oneof![
        3 => gen::pattern_pair(sh),
        1 => gen::pattern(sh).prop_map(|a| (a.clone(), a)),
        3 => (gen::pattern(sh), 0..n, gen::digit_value(db)).prop_map(move |(a, j, d)| {
            let mut b = a.clone();
            b.0[j * db..(j + 1) * db].copy_from_slice(&d.to_le_bytes()[..db]);
            (a, b)
        }),
        2 => (gen::pattern(sh), gen::pattern(sh), 0..=n).prop_map(move |(a, mut b, j)| {
            // share the top j digits
            let from = (n - j) * db;
            b.0[from..].copy_from_slice(&a.0[from..]);
            (a, b)
        }),
        2 => gen::pattern(sh).prop_map(|a| {
            let mut b = a.clone();
            let last = b.0.len() - 1;
            b.0[last] ^= 0x80;
            (a, b)
        }),
        2 => (gen::pattern(sh), -2i64..=2).prop_map(move |(a, e)| {
            let b = Pat(Z::from_le_unsigned(&a.0).add_i(e).to_le_wrapped(sh.bytes));
            (a, b)
        }),
        1 => (gen::pattern(sh), gen::pattern(sh)).prop_map(move |(mut a, mut b)| {
            // top digit zero, lower digits arbitrary
            for x in a.0.iter_mut().skip((n - 1) * db) { *x = 0; }
            for x in b.0.iter_mut().skip((n - 1) * db) { *x = 0; }
            (a, b)
        }),
    ]
    .boxed()
}

fn order<T: Int>(c: &(Pat, Pat), obs: &mut Obs) -> Result<(), String> {
    let (a, b): (T, T) = (ld(&c.0), ld(&c.1));
    let (za, zb) = (a.z(), b.z());
    let ord = za.cmp(&zb);
    let db = T::shape().digit_bytes;
    let n = T::shape().n();
    let shared_top = (0..n).rev().take_while(|&i| c.0 .0[i * db..(i + 1) * db] == c.1 .0[i * db..(i + 1) * db]).count();
    obs.nt_if((ord != Ordering::Equal && shared_top >= 1) || za.is_neg() != zb.is_neg() || ord == Ordering::Equal);
    obs.label_if(ord != Ordering::Equal && shared_top >= 1, "unequal, sharing >= 1 leading digit");
    obs.label_if(ord != Ordering::Equal && n >= 2 && shared_top == n - 1, "differ only in the lowest digit");
    obs.label_if(za.is_neg() != zb.is_neg(), "signs differ");
    obs.label_if(ord == Ordering::Equal, "equal");
    ck!("cmp (Ord)", Ord::cmp(&a, &b), ord);
    ck!("cmp (const twin)", a.c_cmp(&b), ord);
    ck!("partial_cmp", PartialOrd::partial_cmp(&a, &b), Some(ord));
    ck!("==", a == b, ord == Ordering::Equal);
    ck!("!=", a != b, ord != Ordering::Equal);
    ck!("<", a < b, ord == Ordering::Less);
    ck!("<=", a <= b, ord != Ordering::Greater);
    ck!(">", a > b, ord == Ordering::Greater);
    ck!(">=", a >= b, ord != Ordering::Less);
    ck!("eq (const twin)", a.c_eq(&b), ord == Ordering::Equal);
    ck!("ne (const twin)", a.c_ne(&b), ord != Ordering::Equal);
    ck!("lt (const twin)", a.c_lt(&b), ord == Ordering::Less);
    ck!("le (const twin)", a.c_le(&b), ord != Ordering::Greater);
    ck!("gt (const twin)", a.c_gt(&b), ord == Ordering::Greater);
    ck!("ge (const twin)", a.c_ge(&b), ord != Ordering::Less);
    // equality exactly when the digit arrays are identical
    ck!("== iff identical digits", a == b, c.0 == c.1);
    // antisymmetry as observed
    ck!("cmp reversed", Ord::cmp(&b, &a), ord.reverse());
    let (zmin_, zmax_) = if za <= zb { (&za, &zb) } else { (&zb, &za) };
    ck!("min (const twin)", st(&a.c_min(b)), pz::<T>(zmin_));
    ck!("max (const twin)", st(&a.c_max(b)), pz::<T>(zmax_));
    ck!("Ord::min", st(&Ord::min(a, b)), pz::<T>(zmin_));
    ck!("Ord::max", st(&Ord::max(a, b)), pz::<T>(zmax_));
    // order consistent with arithmetic: a < b  =>  a + 1 <= b (when a + 1 is representable)
    if ord == Ordering::Less {
        if let Some(a1) = a.checked_add(T::k_one()) {
            ck!("a < b implies a + 1 <= b", a1 <= b, true);
        }
    }
    obs.note(|| format!("a={:?} b={:?} cmp={:?}", za, zb, ord));
    Ok(())
}

fn clamp3<T: Int>(c: &(Pat, Pat, Pat), obs: &mut Obs) -> Result<(), String> {
    let x: T = ld(&c.0);
    let (p, q): (T, T) = (ld(&c.1), ld(&c.2));
    let (zx, zp, zq) = (x.z(), p.z(), q.z());
    // sort the bounds on the reference side (clamp asserts lo <= hi)
    let (lo, hi, zlo, zhi) = if zp <= zq { (p, q, zp, zq) } else { (q, p, zq, zp) };
    let exp = if zx < zlo { zlo.clone() } else if zx > zhi { zhi.clone() } else { zx.clone() };
    obs.nt_if(zx < zlo || zx > zhi || zlo == zhi);
    obs.label_if(zx < zlo, "clamp: below lo");
    obs.label_if(zx > zhi, "clamp: above hi");
    ck!("clamp (const twin)", st(&x.c_clamp(lo, hi)), pz::<T>(&exp));
    ck!("Ord::clamp", st(&Ord::clamp(x, lo, hi)), pz::<T>(&exp));
    Ok(())
}

fn hash_eq<T: Int>(c: &(Pat, Pat), obs: &mut Obs) -> Result<(), String> {
    let (a, b): (T, T) = (ld(&c.0), ld(&c.1));
    obs.nt();
    // the same value reached through different computations
    let copy: T = T::load(&a.store());
    let roundtrip = a.wrapping_add(b).wrapping_sub(b);
    let double_not = !(!a);
    let xor2 = (a ^ b) ^ b;
    for (what, v) in [("reloaded copy", copy), ("(a+b)-b", roundtrip), ("!!a", double_not), ("(a^b)^b", xor2)] {
        ck!(format!("{what} == a"), v == a, true);
        ck!(format!("hash({what}) == hash(a)"), h(&v), h(&a));
    }
    let parsed = T::from_str_radix(&a.to_str_radix(10), 10);
    match parsed {
        Ok(v) => {
            ck!("parse(print(a)) == a", v == a, true);
            ck!("hash(parse(print(a))) == hash(a)", h(&v), h(&a));
        }
        Err(_) => return Err("parse(print(a)) failed".into()),
    }
    if a == b {
        ck!("equal values hash equally", h(&a), h(&b));
    }
    Ok(())
}

fn sign_preds<I: SInt>(c: &Pat, obs: &mut Obs) -> Result<(), String> {
    let a: I = ld(c);
    let z = a.z();
    let db = I::shape().digit_bytes;
    let n = I::shape().n();
    // top digit zero with non-zero lower digits, or negative
    let top_zero = c.0[(n - 1) * db..].iter().all(|&b| b == 0);
    obs.nt_if(z.is_neg() || (top_zero && !z.is_zero()) || z.is_zero());
    obs.label_if(top_zero && !z.is_zero(), "positive with zero top digit");
    obs.label_if(z.is_zero(), "zero");
    ck!("signum", st(&a.signum()), pz::<I>(&Z::from_i64(z.signum() as i64)));
    ck!("is_positive", a.is_positive(), z.is_pos());
    ck!("is_negative", a.is_negative(), z.is_neg());
    // sibling entry points: num_traits::Signed (anchored by C18)
    ck!("num_traits::Signed::signum", st(&a.nt_signum()), pz::<I>(&Z::from_i64(z.signum() as i64)));
    ck!("num_traits::Signed::is_positive / is_negative", (a.nt_is_positive(), a.nt_is_negative()), (z.is_pos(), z.is_neg()));
    Ok(())
}

fn jobs_for<U, I>(jobs: &mut Vec<Job>)
where
    U: UInt + Int<I = I>,
    I: SInt + Int<U = U>,
{
    let sh: Shape = U::shape();
    jobs.push(Job::new(job_name::<U>("u/order"), move |ctx| {
        ctx.run("order", ctx.budget(QUICK, FACTOR), cmp_pairs(sh), order::<U>);
    }));
    jobs.push(Job::new(job_name::<U>("i/order"), move |ctx| {
        ctx.run("order", ctx.budget(QUICK, FACTOR), cmp_pairs(sh), order::<I>);
    }));
    jobs.push(Job::new(job_name::<U>("sweep"), move |ctx| {
        let full = ctx.tier() == vlib::Tier::Thorough;
        ctx.enumerate("order_u", "position pairs for every bit position", position_pairs(sh, full), order::<U>);
        ctx.enumerate("order_i", "position pairs for every bit position", position_pairs(sh, full), order::<I>);
        let zero = Pat(vec![0u8; sh.bytes]);
        ctx.enumerate("vs_zero_i", "+-(2^k - 1), +-2^k, ... against zero for every k", position_values(sh, full).flat_map(move |p| [(p.clone(), zero.clone()), (zero.clone(), p)]), order::<I>);
        ctx.enumerate("sign_i", "2^k - 1, 2^k, 2^k + 1, negations, complements for every k", position_values(sh, full), sign_preds::<I>);
    }));
    jobs.push(Job::new(job_name::<U>("clamp_minmax"), move |ctx| {
        let s = || (cmp_pairs(sh), gen::pattern(sh), any::<bool>()).prop_map(|((a, b), c, sw)| if sw { (a, b, c) } else { (c, a, b) });
        ctx.run("clamp_u", ctx.budget(QUICK / 2, FACTOR), s(), clamp3::<U>);
        ctx.run("clamp_i", ctx.budget(QUICK / 2, FACTOR), s(), clamp3::<I>);
    }));
    jobs.push(Job::new(job_name::<U>("hash_eq"), move |ctx| {
        let big = U::W > 1100;
        ctx.run("hash_u", ctx.budget(if big { 40 } else { QUICK / 3 }, FACTOR), cmp_pairs(sh), hash_eq::<U>);
        ctx.run("hash_i", ctx.budget(if big { 40 } else { QUICK / 3 }, FACTOR), cmp_pairs(sh), hash_eq::<I>);
    }));
    jobs.push(Job::new(job_name::<U>("sign_preds"), move |ctx| {
        ctx.run("sign_preds", ctx.budget(QUICK, FACTOR), gen::pattern(sh), sign_preds::<I>);
    }));
}

fn exhaustive(jobs: &mut Vec<Job>) {
    type U8 = bnum::BUintD8<1>;
    type I8 = bnum::BIntD8<1>;
    jobs.push(Job::new("small/exhaustive8@D8x1", |ctx| {
        let pairs = || (0..=255u8).flat_map(|a| (0..=255u8).map(move |b| (Pat(vec![a]), Pat(vec![b]))));
        ctx.enumerate("u_order", "all (a, b) of BUintD8<1>", pairs(), order::<U8>);
        ctx.enumerate("i_order", "all (a, b) of BIntD8<1>", pairs(), order::<I8>);
        ctx.enumerate("i_sign", "all values of BIntD8<1>", (0..=255u8).map(|a| Pat(vec![a])), sign_preds::<I8>);
    }));
    type I16 = bnum::BIntD8<2>;
    jobs.push(Job::new("small/exhaustive16@D8x2", |ctx| {
        ctx.enumerate("i_sign", "all values of BIntD8<2>", (0..=u16::MAX).map(|a| Pat(a.to_le_bytes().to_vec())), sign_preds::<I16>);
    }));
}

fn main() {
    let mut jobs = Vec::new();
    macro_rules! add {
        ($U:ty, $I:ty) => {
            jobs_for::<$U, $I>(&mut jobs);
            checks::siblings::topic_jobs::<$U, $I>(&mut jobs, checks::siblings::Group::Cmp, 150, FACTOR);
        };
    }
    for_all_cfgs!(add);
    exhaustive(&mut jobs);
    runner::main(
        Property {
            id: "C07",
            rule: "Pairs are built for comparison: independent structured patterns, equal values, values differing in exactly one digit j (every j), sharing the top j digits, same bits with opposite top bit, a and a+-1/+-2, zero top digit with arbitrary lower digits; clamp triples with bounds sorted on the reference side. Oracle: the order of the denoted reference integers (two's complement for signed) for ==, !=, <, <=, >, >=, cmp, partial_cmp, min, max, clamp (inherent const twins and Ord/PartialOrd trait methods), equality iff identical digit arrays, equal hashes for the same value reached by different computations (reload, (a+b)-b, !!a, (a^b)^b, parse(print(a))), signum/is_positive/is_negative from the sign of the reference value. NON-TRIVIAL: unequal values sharing >= 1 leading digit, or differing signs, or equal values; clamp: value outside the bounds; sign predicates: negative, zero, or positive with zero top digit. distinct = distinct (profile, job, inputs) by 64-bit hash. 8-bit configuration enumerated completely. A deterministic SWEEP additionally enumerates, per configuration, position-specific inputs (2^k - 1, 2^k, 2^k + 1 with their negations and complements; carry / borrow chains and power-of-two products ending at every bit position k; every shift / rotate amount; every bit index; every float exponent) - all positions on types up to 1088 bits, a sparse selection of a few hundred positions on wider types in the quick tier, all positions in the thorough tier. SIBLINGS job (per configuration): the entry points of this property's own operations that other properties anchor - the six operand forms of the std operators (a op b, &a op b, a op &b, &a op &b, a op= b, a op= &b; for shifts every primitive and bnum-typed amount type), Sum/Product, and the num_traits forwarders - are compared with the inherent method / const twin (same value, same panic outcome), so that a regression confined to one rarely used entry point is reported by the check of the operation it belongs to as well as by C17/C18.",
            assumptions: &[
                "digits()/from_digits()/to_bits()/from_bits() are the trusted observation channel",
                "hash inequality of unequal values and clamp with lo > hi (asserts) are outside the property",
            ],
        },
        jobs,
        &[("refint", vlib::refint::self_test)],
    );
}
