//! C02 — multiplication is exact: low half, overflow flag, full double-width product (DESIGN.md §4 C02)

use checks::api::{width_scale, Int, SInt, UInt};
use checks::common::*;
use checks::for_all_cfgs;
use proptest::prelude::*;
use vlib::gen::{self, Shape};
use vlib::runner::{self, outcome, Job, Obs, Property};
use vlib::{ck, Pat, Z};

const QUICK: u32 = 1000;
const FACTOR: u32 = 20;

fn classify<T: Int>(obs: &mut Obs, a: &Pat, b: &Pat, p: &Z) {
    let sh = T::shape();
    let w = T::W as u64;
    let both_multi = sh.n() >= 2 && sig_digits(&a.0, sh.digit_bytes) >= 2 && sig_digits(&b.0, sh.digit_bytes) >= 2;
    let bl = p.bit_len();
    let near_edge = bl >= w - 1 && bl <= w + 1;
    obs.nt_if(both_multi || near_edge);
    obs.label_if(both_multi, "both operands >= 2 significant digits");
    obs.label_if(near_edge, "|product| within a factor 2..4 of the representable bound");
    obs.label_if(!fits::<T>(p), "overflow flag set");
    obs.label_if(*p == zmin::<T>() && T::SIGNED, "signed product exactly MIN");
    obs.label_if(*p == zmax::<T>().add_i(1) || *p == zmin::<T>().add_i(-1), "overflow by exactly one");
    obs.label_if(*p == zmax::<T>(), "product exactly MAX");
}

fn mul<T: Int>(c: &(Pat, Pat), obs: &mut Obs) -> Result<(), String> {
    let (a, b): (T, T) = (ld(&c.0), ld(&c.1));
    let (za, zb) = (a.z(), b.z());
    let p = za.mul(&zb);
    classify::<T>(obs, &c.0, &c.1, &p);
    check_family(
        "mul",
        &p,
        Family {
            overflowing: Some(a.overflowing_mul(b)),
            checked: Some(a.checked_mul(b)),
            wrapping: Some(a.wrapping_mul(b)),
            saturating: Some(a.saturating_mul(b)),
            strict: Some(outcome(|| a.strict_mul(b))),
        },
    )?;
    if fits::<T>(&p) {
        ck!("unchecked_mul", st(&unsafe { a.unchecked_mul(b) }), pz::<T>(&p));
    }
    // commutativity of the observable pair (cheap metamorphic cross-check)
    ck!("overflowing_mul commutes", a.overflowing_mul(b), b.overflowing_mul(a));
    obs.note(|| format!("a={:?} b={:?} a*b={:?} overflowing_mul={:?}", za, zb, p, a.overflowing_mul(b)));
    Ok(())
}

fn widening_carrying<U: UInt>(c: &(Pat, Pat, Pat), obs: &mut Obs) -> Result<(), String> {
    let (a, b, k): (U, U, U) = (ld(&c.0), ld(&c.1), ld(&c.2));
    let w = U::W as u64;
    let p = a.z().mul(&b.z());
    let (lo, hi) = a.widening_mul(b);
    ck!("widening_mul lo", st(&lo), pz::<U>(&p));
    ck!("widening_mul hi", st(&hi), pz::<U>(&p.shr_floor(w)));
    let pc = p.add(&k.z());
    let (lo, hi) = a.carrying_mul(b, k);
    ck!("carrying_mul lo", st(&lo), pz::<U>(&pc));
    ck!("carrying_mul hi", st(&hi), pz::<U>(&pc.shr_floor(w)));
    let hi_nz = !p.shr_floor(w).is_zero();
    obs.nt_if(hi_nz);
    obs.label_if(hi_nz, "high half non-zero");
    obs.label_if(pc.shr_floor(w) != p.shr_floor(w), "carry word propagates into the high half");
    obs.label_if(pc.shr_floor(w) == zmax::<U>(), "high half = MAX");
    obs.note(|| format!("a={:?} b={:?} c={:?} carrying_mul={:?}", a.z(), b.z(), k.z(), a.carrying_mul(b, k)));
    Ok(())
}

/// "can be chained": a 2-word x 2-word product assembled from carrying_mul / carrying_add
fn chain2<U: UInt>(c: &(Pat, Pat, Pat, Pat), obs: &mut Obs) -> Result<(), String> {
    let (a0, a1, b0, b1): (U, U, U, U) = (ld(&c.0), ld(&c.1), ld(&c.2), ld(&c.3));
    let w = U::W as u64;
    let zero = U::k_zero();
    let (p0, c0) = a0.carrying_mul(b0, zero);
    let (t1, c1) = a1.carrying_mul(b0, c0);
    let (p1, c2) = a0.carrying_mul(b1, t1);
    let (t3, c3) = a1.carrying_mul(b1, c1);
    let (p2, k) = t3.carrying_add(c2, false);
    let (p3, k2) = c3.carrying_add(zero, k);
    let got = p0.z().add(&p1.z().shl(w)).add(&p2.z().shl(2 * w)).add(&p3.z().shl(3 * w));
    let a = a1.z().shl(w).add(&a0.z());
    let b = b1.z().shl(w).add(&b0.z());
    ck!("4-word product from chained carrying_mul/carrying_add", got, a.mul(&b));
    ck!("final carry out of a 2x2-word product", k2, false);
    obs.nt_if(!c0.is_zero() && !c1.is_zero() && !c2.is_zero());
    obs.label_if(k, "carry between partial words");
    Ok(())
}

/// operands at the edge of overflow: b = floor((B + delta) / |a|) + eps
fn edge_pairs(sh: Shape, signed: bool) -> BoxedStrategy<(Pat, Pat)> {
    let w = sh.bits() as u64;
    (gen::pattern(sh), 0u8..3, -1i64..=1, -1i64..=1, any::<bool>(), any::<bool>(), 0u32..sh.bits())
        .prop_map(move |(a, bsel, delta, eps, na, nb, shrink)| {
            let mut za = Z::from_le(&a.0, signed).abs();
            // spread the size of a over the whole range so that b has every possible size
            za = za.shr_floor((shrink as u64) % w);
            if za.is_zero() {
                za = Z::one();
            }
            let bound = match bsel {
                0 => Z::pow2(w).add_i(-1),
                1 => Z::pow2(w - 1).add_i(-1),
                _ => Z::pow2(w - 1),
            };
            let zb = bound.add_i(delta).divrem_floor(&za).0.add_i(eps);
            let (za, zb) = if signed { (if na { za.neg() } else { za }, if nb { zb.neg() } else { zb }) } else { (za, zb) };
            (Pat(za.to_le_wrapped(sh.bytes)), Pat(zb.to_le_wrapped(sh.bytes)))
        })
        .boxed()
}

/// a = single non-zero digit at position i, b = single non-zero digit at position j, i + j around N
fn positional_pairs(sh: Shape) -> BoxedStrategy<(Pat, Pat)> {
    let n = sh.n();
    let db = sh.digit_bytes;
    (0..n, 0usize..3, gen::digit_value(db), gen::digit_value(db), any::<bool>(), gen::pattern(sh))
        .prop_map(move |(i, off, da, dbv, noise, low)| {
            // i + j in {N-2, N-1, N}
            let target = (n + off).saturating_sub(2);
            let j = target.saturating_sub(i).min(n - 1);
            let mut a = vec![0u8; sh.bytes];
            let mut b = vec![0u8; sh.bytes];
            a[i * db..(i + 1) * db].copy_from_slice(&da.max(1).to_le_bytes()[..db]);
            b[j * db..(j + 1) * db].copy_from_slice(&dbv.max(1).to_le_bytes()[..db]);
            if noise {
                // non-zero low digits below position i as well
                for k in 0..i * db {
                    a[k] = low.0[k];
                }
            }
            (Pat(a), Pat(b))
        })
        .boxed()
}

fn jobs_for<U, I>(jobs: &mut Vec<Job>)
where
    U: UInt + Int<I = I>,
    I: SInt + Int<U = U>,
{
    let sh: Shape = U::shape();
    let sc = width_scale(U::W);
    let q = move |base: u32| ((base as f64 * sc).ceil() as u32).max(30);

    jobs.push(Job::new(job_name::<U>("u/mul"), move |ctx| {
        ctx.run("mul", ctx.budget(q(QUICK), FACTOR), gen::pattern_pair(sh), mul::<U>);
        ctx.run("mul_positional", ctx.budget(q(QUICK / 2), FACTOR), positional_pairs(sh), mul::<U>);
    }));
    jobs.push(Job::new(job_name::<U>("u/mul_edge"), move |ctx| {
        ctx.run("mul_edge", ctx.budget(q(QUICK), FACTOR), edge_pairs(sh, false), mul::<U>);
    }));
    jobs.push(Job::new(job_name::<U>("i/mul"), move |ctx| {
        ctx.run("mul", ctx.budget(q(QUICK), FACTOR), gen::pattern_pair(sh), mul::<I>);
        ctx.run("mul_positional", ctx.budget(q(QUICK / 2), FACTOR), positional_pairs(sh), mul::<I>);
    }));
    jobs.push(Job::new(job_name::<U>("i/mul_edge"), move |ctx| {
        ctx.run("mul_edge", ctx.budget(q(QUICK), FACTOR), edge_pairs(sh, true), mul::<I>);
    }));
    jobs.push(Job::new(job_name::<U>("u/widening_carrying"), move |ctx| {
        let s = (gen::pattern_pair(sh), gen::pattern(sh)).prop_map(|((a, b), c)| (a, b, c));
        ctx.run("widening_carrying", ctx.budget(q(QUICK), FACTOR), s, widening_carrying::<U>);
        let s = (edge_pairs(sh, false), gen::boundary(sh)).prop_map(|((a, b), c)| (a, b, c));
        ctx.run("widening_carrying_edge", ctx.budget(q(QUICK / 2), FACTOR), s, widening_carrying::<U>);
    }));
    jobs.push(Job::new(job_name::<U>("sweep"), move |ctx| {
        let full = ctx.tier() == vlib::Tier::Thorough;
        ctx.enumerate("mul_u", "position pairs for every bit position (2^k * 2^(W-1-k) etc.)", position_pairs(sh, full), mul::<U>);
        ctx.enumerate("mul_i", "position pairs for every bit position (products exactly MIN, 2^(W-1), ...)", position_pairs(sh, full), mul::<I>);
        ctx.enumerate("widening_u", "position pairs for every bit position, carry word all ones", position_pairs(sh, full).map(move |(a, b)| (a, b, Pat(vec![0xffu8; sh.bytes]))), widening_carrying::<U>);
    }));
    jobs.push(Job::new(job_name::<U>("u/chain2"), move |ctx| {
        let s = (gen::pattern_pair(sh), gen::pattern_pair(sh)).prop_map(|((a, b), (c, d))| (a, b, c, d));
        ctx.run("chain2", ctx.budget(q(QUICK / 4), FACTOR), s, chain2::<U>);
    }));
}

fn exhaustive8(jobs: &mut Vec<Job>) {
    type U8 = bnum::BUintD8<1>;
    type I8 = bnum::BIntD8<1>;
    jobs.push(Job::new("small/exhaustive8@D8x1", |ctx| {
        let pairs = || (0..=255u8).flat_map(|a| (0..=255u8).map(move |b| (Pat(vec![a]), Pat(vec![b]))));
        ctx.enumerate("u_mul", "all (a, b) of BUintD8<1>", pairs(), mul::<U8>);
        ctx.enumerate("i_mul", "all (a, b) of BIntD8<1>", pairs(), mul::<I8>);
        let triples = || (0..=255u8).flat_map(|a| (0..=255u8).flat_map(move |b| [0u8, 1, 127, 128, 254, 255].into_iter().map(move |c| (Pat(vec![a]), Pat(vec![b]), Pat(vec![c])))));
        ctx.enumerate("u_widening_carrying", "all (a, b) x 6 carry words of BUintD8<1>", triples(), widening_carrying::<U8>);
    }));
    // two 8-bit digits: exercises the inter-digit column logic on every operand pair of a sub-grid
    type U16 = bnum::BUintD8<2>;
    type I16 = bnum::BIntD8<2>;
    jobs.push(Job::new("small/grid16@D8x2", |ctx| {
        let vals: Vec<u16> = {
            let mut v: Vec<u16> = Vec::new();
            for hi in [0u16, 1, 2, 0x7f, 0x80, 0x81, 0xfe, 0xff] {
                for lo in [0u16, 1, 2, 3, 0x0f, 0x10, 0x7f, 0x80, 0x81, 0xb5, 0xfe, 0xff] {
                    v.push(hi << 8 | lo);
                }
            }
            v
        };
        let v2 = vals.clone();
        let pairs = move || {
            let v2 = v2.clone();
            vals.clone().into_iter().flat_map(move |a| v2.clone().into_iter().map(move |b| (Pat(a.to_le_bytes().to_vec()), Pat(b.to_le_bytes().to_vec()))))
        };
        ctx.enumerate("u_mul", "96 x 96 boundary grid of BUintD8<2>", pairs(), mul::<U16>);
        ctx.enumerate("i_mul", "96 x 96 boundary grid of BIntD8<2>", pairs(), mul::<I16>);
    }));
}

fn main() {
    let mut jobs = Vec::new();
    macro_rules! add {
        ($U:ty, $I:ty) => {
            jobs_for::<$U, $I>(&mut jobs);
            checks::siblings::topic_jobs::<$U, $I>(&mut jobs, checks::siblings::Group::Mul, 150, FACTOR);
        };
    }
    for_all_cfgs!(add);
    exhaustive8(&mut jobs);
    runner::main(
        Property {
            id: "C02",
            rule: "Operand pairs come from (1) the structured W-bit pattern generators (uniform, digit-aligned bit runs, extreme digits, boundary values, derived second operand), (2) edge-of-overflow construction b = floor((B+delta)/|a|)+eps for B in {2^W-1, 2^(W-1)-1, 2^(W-1)}, delta, eps in {-1,0,1}, all sign combinations, (3) positional operands: one non-zero digit each at positions i, j with i+j in {N-2, N-1, N}. Every case checks overflowing/checked/wrapping/saturating/strict/unchecked mul against the exact product in an independent reference integer; unsigned cases also check widening_mul, carrying_mul and a 2x2-word product chained from carrying_mul/carrying_add. NON-TRIVIAL: both operands have >= 2 significant digits (N >= 2), or the product's magnitude lies within one bit of the representable bound, or (widening) the high half is non-zero. distinct = distinct (profile, job, inputs) among non-trivial cases by 64-bit hash. 8-bit configuration enumerated completely. A deterministic SWEEP additionally enumerates, per configuration, position-specific inputs (2^k - 1, 2^k, 2^k + 1 with their negations and complements; carry / borrow chains and power-of-two products ending at every bit position k; every shift / rotate amount; every bit index; every float exponent) - all positions on types up to 1088 bits, a sparse selection of a few hundred positions on wider types in the quick tier, all positions in the thorough tier. SIBLINGS job (per configuration): the entry points of this property's own operations that other properties anchor - the six operand forms of the std operators (a op b, &a op b, a op &b, &a op &b, a op= b, a op= &b; for shifts every primitive and bnum-typed amount type), Sum/Product, and the num_traits forwarders - are compared with the inherent method / const twin (same value, same panic outcome), so that a regression confined to one rarely used entry point is reported by the check of the operation it belongs to as well as by C17/C18.",
            assumptions: &[
                "digits()/from_digits()/to_bits()/from_bits() are the trusted observation channel",
                "reference integer Z (schoolbook multiply through u64, self-tested against i128 and python vectors on every run)",
                "43 (digit, N) configurations sample 'every N >= 1'",
            ],
        },
        jobs,
        &[("refint", vlib::refint::self_test)],
    );
}
