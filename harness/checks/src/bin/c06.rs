//! C06 — bitwise logic, bit counts and bit manipulation act on the exact bit pattern (DESIGN.md §4 C06)

use checks::api::{Int, SInt, UInt};
use checks::common::*;
use checks::for_all_cfgs;
use vlib::gen::{self, Shape};
use vlib::runner::{self, Job, Obs, Property};
use vlib::{ck, Pat, Z};

const QUICK: u32 = 1500;
const FACTOR: u32 = 20;

fn bits_of(p: &[u8]) -> Vec<bool> {
    (0..p.len() * 8).map(|i| (p[i / 8] >> (i % 8)) & 1 == 1).collect()
}

/// a whole all-zero / all-one digit adjacent to a partial digit, in either scan direction
fn interesting(p: &[u8], db: usize) -> bool {
    let digs: Vec<&[u8]> = p.chunks(db).collect();
    if digs.len() < 2 {
        return false;
    }
    let whole = |d: &[u8]| d.iter().all(|&b| b == 0) || d.iter().all(|&b| b == 0xff);
    let n = digs.len();
    (whole(digs[0]) && !whole(digs[1])) || (whole(digs[n - 1]) && !whole(digs[n - 2])) || (whole(digs[0]) && whole(digs[n - 1]))
}

fn logic<T: Int>(c: &(Pat, Pat), obs: &mut Obs) -> Result<(), String> {
    let (a, b): (T, T) = (ld(&c.0), ld(&c.1));
    let f = |op: fn(u8, u8) -> u8| Pat(c.0 .0.iter().zip(c.1 .0.iter()).map(|(&x, &y)| op(x, y)).collect());
    obs.nt_if(c.0 != c.1 && c.0 .0.iter().any(|&x| x != 0) && c.1 .0.iter().any(|&x| x != 0));
    ck!("operator &", st(&(a & b)), f(|x, y| x & y));
    ck!("operator |", st(&(a | b)), f(|x, y| x | y));
    ck!("operator ^", st(&(a ^ b)), f(|x, y| x ^ y));
    ck!("operator !", st(&(!a)), Pat(c.0 .0.iter().map(|&x| !x).collect()));
    ck!("bitand (const twin)", st(&a.c_bitand(b)), f(|x, y| x & y));
    ck!("bitor (const twin)", st(&a.c_bitor(b)), f(|x, y| x | y));
    ck!("bitxor (const twin)", st(&a.c_bitxor(b)), f(|x, y| x ^ y));
    ck!("not (const twin)", st(&a.c_not()), Pat(c.0 .0.iter().map(|&x| !x).collect()));
    Ok(())
}

fn counts<T: Int>(c: &Pat, obs: &mut Obs) -> Result<(), String> {
    let a: T = ld(c);
    let bv = bits_of(&c.0);
    let w = bv.len() as u32;
    let ones = bv.iter().filter(|&&b| b).count() as u32;
    let lz = bv.iter().rev().take_while(|&&b| !b).count() as u32;
    let tz = bv.iter().take_while(|&&b| !b).count() as u32;
    let lo = bv.iter().rev().take_while(|&&b| b).count() as u32;
    let to = bv.iter().take_while(|&&b| b).count() as u32;
    let db = T::shape().digit_bytes;
    obs.nt_if(interesting(&c.0, db) || ones == 0 || ones == w);
    obs.label_if(interesting(&c.0, db), "whole 0/1 digit next to a partial digit");
    obs.label_if(ones == 0, "all-zero pattern");
    obs.label_if(ones == w, "all-one pattern");
    obs.label_if(lz >= T::DIGIT_BITS && lz < w, "leading zeros span >= 1 whole digit");
    obs.label_if(to >= T::DIGIT_BITS && to < w, "trailing ones span >= 1 whole digit");
    ck!("count_ones", a.count_ones(), ones);
    ck!("count_zeros", a.count_zeros(), w - ones);
    ck!("leading_zeros", a.leading_zeros(), lz);
    ck!("trailing_zeros", a.trailing_zeros(), tz);
    ck!("leading_ones", a.leading_ones(), lo);
    ck!("trailing_ones", a.trailing_ones(), to);
    ck!("bits", a.bits(), w - lz);
    ck!("is_zero", a.is_zero(), ones == 0);
    ck!("is_one", a.is_one(), ones == 1 && bv[0]);
    let pos_pow2 = ones == 1 && !(T::SIGNED && bv[w as usize - 1]);
    ck!("is_power_of_two", a.is_power_of_two(), pos_pow2);
    // byte / bit reversal and involutions
    let mut sb = c.0.clone();
    sb.reverse();
    ck!("swap_bytes", st(&a.swap_bytes()), Pat(sb));
    let mut rb = vec![0u8; c.0.len()];
    for (i, &b) in bv.iter().enumerate() {
        if b {
            let j = w as usize - 1 - i;
            rb[j / 8] |= 1 << (j % 8);
        }
    }
    ck!("reverse_bits", st(&a.reverse_bits()), Pat(rb));
    ck!("swap_bytes involution", st(&a.swap_bytes().swap_bytes()), c.clone());
    ck!("reverse_bits involution", st(&a.reverse_bits().reverse_bits()), c.clone());
    obs.note(|| format!("x={:?} ones={} lz={} tz={} lo={} to={}", c, ones, lz, tz, lo, to));
    Ok(())
}

fn bit_read<T: Int>(c: &(Pat, u32), obs: &mut Obs) -> Result<(), String> {
    let a: T = ld(&c.0);
    let i = c.1 % T::W;
    obs.nt_if(i >= T::DIGIT_BITS);
    ck!("bit(i)", a.bit(i), (c.0 .0[(i / 8) as usize] >> (i % 8)) & 1 == 1);
    Ok(())
}

fn bit_setbit_pow2<U: UInt>(c: &(Pat, u32, bool), obs: &mut Obs) -> Result<(), String> {
    let a: U = ld(&c.0);
    let i = c.1 % U::W;
    let v = c.2;
    obs.nt_if(i >= U::DIGIT_BITS);
    obs.label_if(i >= U::DIGIT_BITS, "bit index beyond the first digit");
    obs.label_if(i == U::W - 1, "top bit");
    let mut exp = c.0 .0.clone();
    if v {
        exp[(i / 8) as usize] |= 1 << (i % 8);
    } else {
        exp[(i / 8) as usize] &= !(1 << (i % 8));
    }
    let mut m = a;
    m.set_bit_(i, v);
    ck!("set_bit writes exactly bit i", st(&m), Pat(exp));
    ck!("bit after set_bit", m.bit(i), v);
    ck!("power_of_two(k)", st(&U::power_of_two(i)), pz::<U>(&Z::pow2(i as u64)));
    Ok(())
}

fn next_pow2<U: UInt>(c: &Pat, obs: &mut Obs) -> Result<(), String> {
    let a: U = ld(c);
    let z = a.z();
    let w = U::W as u64;
    // least 2^j >= x (x = 0 -> 1)
    let j = if z.is_zero() {
        0
    } else if z.trailing_zeros() == Some(z.bit_len() - 1) {
        z.bit_len() - 1
    } else {
        z.bit_len()
    };
    let fits = j < w;
    obs.nt_if(!fits || z.bit_len() + 1 >= w || z.bit_len() > U::DIGIT_BITS as u64);
    obs.label_if(!fits, "next power of two does not fit");
    obs.label_if(j == w - 1, "next power of two is the top bit");
    ck!("checked_next_power_of_two", a.checked_next_power_of_two().map(|v| st(&v)), if fits { Some(pz::<U>(&Z::pow2(j))) } else { None });
    ck!("wrapping_next_power_of_two", st(&a.wrapping_next_power_of_two()), if fits { pz::<U>(&Z::pow2(j)) } else { pz::<U>(&Z::zero()) });
    Ok(())
}

fn pow2_neighbourhood(sh: Shape) -> proptest::strategy::BoxedStrategy<Pat> {
    use proptest::prelude::*;
    prop_oneof![
        2 => gen::pattern(sh),
        3 => (0..sh.bits(), -2i64..=2).prop_map(move |(k, e)| Pat(Z::pow2(k as u64).add_i(e).to_le_wrapped(sh.bytes))),
        1 => (0..sh.bits(), gen::pattern(sh)).prop_map(move |(k, p)| {
            // a value with bit length k + 1 and arbitrary lower bits
            let z = Z::from_le_unsigned(&p.0).mod_2k(k as u64).add(&Z::pow2(k as u64));
            Pat(z.to_le_wrapped(sh.bytes))
        }),
    ]
    .boxed()
}

fn jobs_for<U, I>(jobs: &mut Vec<Job>)
where
    U: UInt + Int<I = I>,
    I: SInt + Int<U = U>,
{
    let sh: Shape = U::shape();
    jobs.push(Job::new(job_name::<U>("logic"), move |ctx| {
        ctx.run("logic_u", ctx.budget(QUICK / 2, FACTOR), gen::pattern_pair(sh), logic::<U>);
        ctx.run("logic_i", ctx.budget(QUICK / 2, FACTOR), gen::pattern_pair(sh), logic::<I>);
    }));
    jobs.push(Job::new(job_name::<U>("counts"), move |ctx| {
        ctx.run("counts_u", ctx.budget(QUICK, FACTOR), gen::pattern(sh), counts::<U>);
        ctx.run("counts_i", ctx.budget(QUICK, FACTOR), gen::pattern(sh), counts::<I>);
        ctx.run("counts_pow2_u", ctx.budget(QUICK / 2, FACTOR), pow2_neighbourhood(sh), counts::<U>);
        ctx.run("counts_pow2_i", ctx.budget(QUICK / 2, FACTOR), pow2_neighbourhood(sh), counts::<I>);
    }));
    jobs.push(Job::new(job_name::<U>("bit_setbit_pow2"), move |ctx| {
        use proptest::prelude::*;
        ctx.run("setbit_u", ctx.budget(QUICK, FACTOR), (gen::pattern(sh), gen::bit_index(sh), any::<bool>()), bit_setbit_pow2::<U>);
        ctx.run("bit_u", ctx.budget(QUICK / 2, FACTOR), (gen::pattern(sh), gen::bit_index(sh)), bit_read::<U>);
        ctx.run("bit_i", ctx.budget(QUICK / 2, FACTOR), (gen::pattern(sh), gen::bit_index(sh)), bit_read::<I>);
    }));
    jobs.push(Job::new(job_name::<U>("sweep"), move |ctx| {
        let full = ctx.tier() == vlib::Tier::Thorough;
        ctx.enumerate("counts_u", "2^k - 1, 2^k, 2^k + 1, negations, complements for every k", position_values(sh, full), counts::<U>);
        ctx.enumerate("counts_i", "2^k - 1, 2^k, 2^k + 1, negations, complements for every k", position_values(sh, full), counts::<I>);
        ctx.enumerate("next_pow2", "2^k - 1, 2^k, 2^k + 1, ... for every k", position_values(sh, full), next_pow2::<U>);
        let w = sh.bits();
        let idx = move || positions(sh, full).into_iter().flat_map(move |i| [(Pat(vec![0u8; sh.bytes]), i, true), (Pat(vec![0xffu8; sh.bytes]), i, false), (Pat(vec![0x5au8; sh.bytes]), i, i % 2 == 0)].into_iter());
        ctx.enumerate("setbit", "set_bit / bit / power_of_two at EVERY index on three patterns", idx(), bit_setbit_pow2::<U>);
    }));
    jobs.push(Job::new(job_name::<U>("next_pow2"), move |ctx| {
        ctx.run("next_pow2", ctx.budget(QUICK, FACTOR), pow2_neighbourhood(sh), next_pow2::<U>);
    }));
}

fn exhaustive(jobs: &mut Vec<Job>) {
    type U8 = bnum::BUintD8<1>;
    type I8 = bnum::BIntD8<1>;
    jobs.push(Job::new("small/exhaustive8@D8x1", |ctx| {
        let singles = || (0..=255u8).map(|a| Pat(vec![a]));
        ctx.enumerate("u_counts", "all values of BUintD8<1>", singles(), counts::<U8>);
        ctx.enumerate("i_counts", "all values of BIntD8<1>", singles(), counts::<I8>);
        ctx.enumerate("u_next_pow2", "all values of BUintD8<1>", singles(), next_pow2::<U8>);
        let idx = || (0..=255u8).flat_map(|a| (0u32..8).flat_map(move |i| [false, true].into_iter().map(move |v| (Pat(vec![a]), i, v))));
        ctx.enumerate("u_setbit", "all values x all indices x {0,1} of BUintD8<1>", idx(), bit_setbit_pow2::<U8>);
        let pairs = || (0..=255u8).flat_map(|a| (0..=255u8).map(move |b| (Pat(vec![a]), Pat(vec![b]))));
        ctx.enumerate("u_logic", "all (a, b) of BUintD8<1>", pairs(), logic::<U8>);
    }));
    macro_rules! all16 {
        ($name:literal, $U:ty, $I:ty) => {
            jobs.push(Job::new($name, |ctx| {
                let singles = || (0..=u16::MAX).map(|a| Pat(a.to_le_bytes().to_vec()));
                ctx.enumerate("u_counts", "all 65536 values (unsigned)", singles(), counts::<$U>);
                ctx.enumerate("i_counts", "all 65536 values (signed)", singles(), counts::<$I>);
                ctx.enumerate("u_next_pow2", "all 65536 values", singles(), next_pow2::<$U>);
            }));
        };
    }
    all16!("small/exhaustive16@D8x2", bnum::BUintD8<2>, bnum::BIntD8<2>);
    all16!("small/exhaustive16@D16x1", bnum::BUintD16<1>, bnum::BIntD16<1>);
}

fn main() {
    let mut jobs = Vec::new();
    macro_rules! add {
        ($U:ty, $I:ty) => {
            jobs_for::<$U, $I>(&mut jobs);
            checks::siblings::topic_jobs::<$U, $I>(&mut jobs, checks::siblings::Group::Bits, 150, FACTOR);
        };
    }
    for_all_cfgs!(add);
    exhaustive(&mut jobs);
    runner::main(
        Property {
            id: "C06",
            rule: "Patterns come from the structured generators (digit-aligned runs of 0/1 bits, extreme digits, boundary values, short values) and from the neighbourhood of powers of two (2^k + {-2..2}, exact bit length k+1); indices from the structural boundary table reduced below BITS. Oracle: straight loops over the Vec<bool> of the pattern (counts, bit, set_bit = 'bit i equals v and every other bit unchanged', byte/bit reversal, involutions), 2^k from the reference integer, least power of two >= x by bit length. NON-TRIVIAL: the pattern has a whole all-zero/all-one digit adjacent to a partial digit in a scan direction, or is all-zero/all-one, or the bit index lies beyond the first digit, or (next power of two) the value is within one bit of the top or longer than one digit. distinct = distinct (profile, job, inputs) by 64-bit hash. Completely enumerated: the 8-bit configuration (values, indices, operand pairs) and all 65 536 values of both 16-bit configurations for the unary operations. A deterministic SWEEP additionally enumerates, per configuration, position-specific inputs (2^k - 1, 2^k, 2^k + 1 with their negations and complements; carry / borrow chains and power-of-two products ending at every bit position k; every shift / rotate amount; every bit index; every float exponent) - all positions on types up to 1088 bits, a sparse selection of a few hundred positions on wider types in the quick tier, all positions in the thorough tier. SIBLINGS job (per configuration): the entry points of this property's own operations that other properties anchor - the six operand forms of the std operators (a op b, &a op b, a op &b, &a op &b, a op= b, a op= &b; for shifts every primitive and bnum-typed amount type), Sum/Product, and the num_traits forwarders - are compared with the inherent method / const twin (same value, same panic outcome), so that a regression confined to one rarely used entry point is reported by the check of the operation it belongs to as well as by C17/C18.",
            assumptions: &[
                "digits()/from_digits()/to_bits()/from_bits() are the trusted observation channel",
                "bit/set_bit/power_of_two are only called with index < BITS (documented to panic otherwise); set_bit and power_of_two exist on unsigned types only",
            ],
        },
        jobs,
        &[("refint", vlib::refint::self_test)],
    );
}
