//! C09 — integer casts follow Rust's `as` semantics between all integer types (DESIGN.md §4 C09)

use bnum::cast::{As, CastFrom};
use checks::api::{Int, SInt, UInt, Val};
use checks::common::cast_sources;
use checks::{prim_types, sub_table_types};
use proptest::prelude::*;
use vlib::gen::{self, Shape};
use vlib::runner::{self, outcome, Job, Obs, Outcome, Property};
use vlib::{ck, Pat, Z};

const QUICK: u32 = 250;
const FACTOR: u32 = 20;

fn cast_eval<A: Val, B: Val + CastFrom<A>>(c: &Pat, obs: &mut Obs) -> Result<(), String> {
    let a = A::vload(&c.0);
    let z = a.vz();
    let expected = Pat(z.to_le_wrapped((B::VW / 8) as usize));
    let neg_widen = z.is_neg() && B::VW > A::VW;
    let out_of_range = !z.fits(B::VW as u64, B::VSIGNED);
    obs.nt_if(neg_widen || out_of_range || A::VDIGIT_BITS != B::VDIGIT_BITS);
    obs.label_if(neg_widen, "negative source, wider target (sign extension)");
    obs.label_if(out_of_range, "value outside the target range (truncation / reinterpretation)");
    obs.label_if(A::VDIGIT_BITS != B::VDIGIT_BITS, "digit sizes differ");
    obs.label_if(B::VW % A::VDIGIT_BITS != 0 || A::VW % B::VDIGIT_BITS != 0, "width not a multiple of the other digit size");
    let got = outcome(|| B::cast_from(a));
    ck!(format!("CastFrom<{}> for {}", A::vname(), B::vname()), got.map(|v| Pat(v.vstore())), Outcome::Returned(expected.clone()));
    let got = outcome(|| a.as_::<B>());
    ck!(format!("{}::as_::<{}>", A::vname(), B::vname()), got.map(|v| Pat(v.vstore())), Outcome::Returned(expected.clone()));
    obs.note(|| format!("{} {:?} -> {} {:?}", A::vname(), z, B::vname(), expected));
    Ok(())
}

fn pair_job<A: Val, B: Val + CastFrom<A>>(jobs: &mut Vec<Job>, group: &'static str) {
    let (sa, sb) = (A::vshape(), B::vshape());
    jobs.push(Job::new(format!("{}/{}->{}", group, A::vname(), B::vname()), move |ctx| {
        ctx.run("cast", ctx.budget(QUICK, FACTOR), cast_sources(sa, sb), cast_eval::<A, B>);
    }));
}

fn reinterpret<U, I>(jobs: &mut Vec<Job>)
where
    U: UInt + Int<I = I>,
    I: SInt + Int<U = U>,
{
    let sh = U::shape();
    jobs.push(Job::new(format!("reinterpret@{}", U::cfg()), move |ctx| {
        ctx.run("reinterpret", ctx.budget(QUICK * 2, FACTOR), gen::pattern(sh), |p: &Pat, obs: &mut Obs| {
            let u: U = U::load(&p.0);
            let i: I = I::load(&p.0);
            obs.nt_if(p.0[p.0.len() - 1] & 0x80 != 0);
            ck!("cast_signed keeps the pattern", Pat(u.cast_signed().store()), p.clone());
            ck!("cast_unsigned keeps the pattern", Pat(i.cast_unsigned().store()), p.clone());
            ck!("to_bits keeps the pattern", Pat(i.to_bits().store()), p.clone());
            ck!("from_bits keeps the pattern", Pat(I::from_bits(u).store()), p.clone());
            Ok(())
        });
    }));
}

/// bool and char sources into bnum targets
fn bool_char<B: Val + CastFrom<bool> + CastFrom<char>>(jobs: &mut Vec<Job>) {
    jobs.push(Job::new(format!("bool_char/->{}", B::vname()), move |ctx| {
        let chars = prop_oneof![
            3 => any::<char>(),
            2 => prop_oneof![Just('\0'), Just('\u{7f}'), Just('\u{80}'), Just('\u{ff}'), Just('\u{100}'), Just('\u{ffff}'), Just('\u{10000}'), Just('\u{10ffff}'), Just('\u{d7ff}'), Just('\u{e000}')],
        ];
        ctx.run("char", ctx.budget(QUICK, FACTOR), chars.prop_map(|c| c as u32), |c: &u32, obs: &mut Obs| {
            let ch = char::from_u32(*c).ok_or("generator produced an invalid char")?;
            let expected = Pat(Z::from_u64(*c as u64).to_le_wrapped((B::VW / 8) as usize));
            obs.nt_if(!Z::from_u64(*c as u64).fits(B::VW as u64, B::VSIGNED));
            ck!("CastFrom<char>", outcome(|| <B as CastFrom<char>>::cast_from(ch)).map(|v| Pat(v.vstore())), Outcome::Returned(expected));
            Ok(())
        });
        ctx.enumerate("bool", "both bool values", [false, true].into_iter(), |b: &bool, obs: &mut Obs| {
            obs.nt();
            let expected = Pat(Z::from_u64(*b as u64).to_le_wrapped((B::VW / 8) as usize));
            ck!("CastFrom<bool>", outcome(|| <B as CastFrom<bool>>::cast_from(*b)).map(|v| Pat(v.vstore())), Outcome::Returned(expected));
            Ok(())
        });
    }));
}

/// primitive <-> primitive impls of the same trait, compared with `as` directly
fn prim_prim(jobs: &mut Vec<Job>) {
    macro_rules! row {
        ($from:ty; $($to:ty),*) => {$(
            jobs.push(Job::new(format!("prim_prim/{}->{}", stringify!($from), stringify!($to)), |ctx| {
                let sh = <$from as Val>::vshape();
                let tsh = <$to as Val>::vshape();
                ctx.run("cast", ctx.budget(QUICK, FACTOR), cast_sources(sh, tsh), |p: &Pat, obs: &mut Obs| {
                    let a = <$from as Val>::vload(&p.0);
                    obs.nt_if(a as $to as i128 != a as i128 || <$from>::BITS != <$to>::BITS);
                    ck!("CastFrom vs `as`", <$to as CastFrom<$from>>::cast_from(a), a as $to);
                    ck!("As vs `as`", a.as_::<$to>(), a as $to);
                    Ok(())
                });
            }));
        )*};
    }
    macro_rules! all {
        ([] $($t:ty),*) => {
            all!(@go [$($t),*] $($t),*);
        };
        (@go $all:tt $($from:ty),*) => {
            $( all!(@row $from; $all); )*
        };
        (@row $from:ty; [$($to:ty),*]) => {
            row!($from; $($to),*);
        };
    }
    prim_types!(all);
    // 8- and 16-bit sources exhaustively for every target
    macro_rules! exh {
        ($from:ty; $($to:ty),*) => {
            jobs.push(Job::new(format!("prim_prim/exhaustive/{}", stringify!($from)), |ctx| {
                $(
                    ctx.enumerate(concat!("to_", stringify!($to)), concat!("all values of ", stringify!($from)), (<$from>::MIN..=<$from>::MAX).map(|x| x as i64), |x: &i64, obs: &mut Obs| {
                        let a = *x as $from;
                        obs.nt_if(a as $to as i128 != a as i128);
                        ck!("CastFrom vs `as`", <$to as CastFrom<$from>>::cast_from(a), a as $to);
                        Ok(())
                    });
                )*
            }));
        };
    }
    exh!(u8; u8, u16, u32, u64, u128, usize, i8, i16, i32, i64, i128, isize);
    exh!(i8; u8, u16, u32, u64, u128, usize, i8, i16, i32, i64, i128, isize);
    exh!(u16; u8, u16, u32, u64, u128, usize, i8, i16, i32, i64, i128, isize);
    exh!(i16; u8, u16, u32, u64, u128, usize, i8, i16, i32, i64, i128, isize);
    // bool / char sources and u8 -> char
    jobs.push(Job::new("prim_prim/bool_char", |ctx| {
        ctx.enumerate("bool", "both bool values into every primitive", [false, true].into_iter(), |b: &bool, obs: &mut Obs| {
            obs.nt();
            macro_rules! t { ($($to:ty),*) => {$( ck!("bool as", <$to as CastFrom<bool>>::cast_from(*b), *b as $to); )*}; }
            t!(u8, u16, u32, u64, u128, usize, i8, i16, i32, i64, i128, isize);
            ck!("bool as bool", <bool as CastFrom<bool>>::cast_from(*b), *b);
            Ok(())
        });
        ctx.enumerate("u8_to_char", "all u8 values", 0u8..=255, |x: &u8, obs: &mut Obs| {
            obs.nt_if(*x >= 0x80);
            ck!("u8 as char", <char as CastFrom<u8>>::cast_from(*x), *x as char);
            Ok(())
        });
        ctx.run("char", ctx.budget(2000, FACTOR), any::<char>().prop_map(|c| c as u32), |c: &u32, obs: &mut Obs| {
            let ch = char::from_u32(*c).ok_or("invalid char")?;
            obs.nt_if(*c > 0xff);
            macro_rules! t { ($($to:ty),*) => {$( ck!("char as", <$to as CastFrom<char>>::cast_from(ch), ch as $to); )*}; }
            t!(u8, u16, u32, u64, u128, usize, i8, i16, i32, i64, i128, isize);
            ck!("char as char", <char as CastFrom<char>>::cast_from(ch), ch);
            Ok(())
        });
    }));
}

fn main() {
    let mut jobs: Vec<Job> = Vec::new();

    // bnum x bnum: every ordered pair of the 32 sub-table types (1024 pairs)
    macro_rules! bb {
        ([] $($t:ty),*) => { bb!(@go [$($t),*] $($t),*); };
        (@go $all:tt $($a:ty),*) => { $( bb!(@row $a; $all); )* };
        (@row $a:ty; [$($b:ty),*]) => { $( pair_job::<$a, $b>(&mut jobs, "bnum_bnum"); )* };
    }
    sub_table_types!(bb);

    // bnum -> primitive and primitive -> bnum (32 x 12 x 2 pairs)
    macro_rules! bp {
        ([] $($t:ty),*) => { $( bp!(@one $t); )* };
        (@one $t:ty) => {
            bp!(@prims $t; u8, u16, u32, u64, u128, usize, i8, i16, i32, i64, i128, isize);
            bool_char::<$t>(&mut jobs);
        };
        (@prims $t:ty; $($p:ty),*) => {
            $( pair_job::<$t, $p>(&mut jobs, "bnum_prim"); pair_job::<$p, $t>(&mut jobs, "prim_bnum"); )*
        };
    }
    sub_table_types!(bp);

    // the large configurations against primitives and against each other
    pair_job::<bnum::BUint<128>, u64>(&mut jobs, "bnum_prim");
    pair_job::<bnum::BInt<128>, i128>(&mut jobs, "bnum_prim");
    pair_job::<i128, bnum::BInt<128>>(&mut jobs, "prim_bnum");
    pair_job::<i8, bnum::BUint<128>>(&mut jobs, "prim_bnum");
    pair_job::<bnum::BInt<128>, bnum::BUintD8<17>>(&mut jobs, "bnum_bnum");
    pair_job::<bnum::BIntD8<17>, bnum::BInt<128>>(&mut jobs, "bnum_bnum");
    pair_job::<bnum::BIntD16<20>, bnum::BUintD32<16>>(&mut jobs, "bnum_bnum");
    pair_job::<bnum::BUintD32<16>, bnum::BIntD8<40>>(&mut jobs, "bnum_bnum");
    pair_job::<bnum::BIntD8<40>, bnum::BInt<17>>(&mut jobs, "bnum_bnum");
    pair_job::<bnum::BInt<17>, bnum::BIntD16<20>>(&mut jobs, "bnum_bnum");

    macro_rules! re {
        ($U:ty, $I:ty) => {
            reinterpret::<$U, $I>(&mut jobs);
            // sibling entry point of the As cast: num_traits::AsPrimitive (anchored by C19) must agree with it
            jobs.push(Job::new(checks::common::job_name::<$U>("siblings"), move |ctx| {
                let sh = <$U as checks::Int>::shape();
                ctx.run("as_primitive_u", ctx.budget(150, FACTOR), checks::siblings::as_primitive_cases(sh), checks::siblings::as_primitive_forms::<$U>);
                ctx.run("as_primitive_i", ctx.budget(150, FACTOR), checks::siblings::as_primitive_cases(sh), checks::siblings::as_primitive_forms::<$I>);
            }));
        };
    }
    checks::for_all_cfgs!(re);

    prim_prim(&mut jobs);

    runner::main(
        Property {
            id: "C09",
            rule: "Ordered (source, target) type pairs: all 1024 pairs of the 32 sub-table bnum types (4 digit types; widths 8..192 incl. 24, 40, 48, 136, 144, 160; both directions of every digit-size ratio), 768 bnum<->primitive pairs, bool/char into every sub-table type, 10 pairs involving 320..8192-bit types, the 144 primitive->primitive impls of the same trait, and cast_signed/cast_unsigned/to_bits/from_bits on all 51 configurations. Source values: structured source patterns, target-shaped values shifted by k*2^Wt and wrapped into the source (bits above the target width, sign extension across digit boundaries), and +-2^(Wt-1), +-2^Wt, 2^(Wt+1) +- 2. Oracle: decode the source to the reference integer (zero- or sign-extension is just 'the value'), reduce modulo 2^(target BITS), compare the digit bytes; primitive<->primitive against `as`; never panics (catch_unwind). NON-TRIVIAL: negative source into a wider target, or value outside the target range, or different digit sizes. distinct = distinct (profile, job, inputs) by 64-bit hash. 8- and 16-bit primitive sources enumerated exhaustively for every primitive target. SIBLINGS job (per configuration): num_traits::AsPrimitive::as_ (bnum -> every primitive integer and float, every primitive / char / bool -> bnum, bnum -> bnum within the digit family) is compared with the As cast, so that a regression confined to that entry point is reported here as well as by C19.",
            assumptions: &[
                "digits()/from_digits()/to_bits()/from_bits() and to_le_bytes/from_le_bytes of primitives are the trusted observation channel",
                "usize/isize are 64 bits wide on this target",
            ],
        },
        jobs,
        &[("refint", vlib::refint::self_test)],
    );
}
