// shared by the fuzz targets: configuration dispatch by a selector byte
#[macro_export]
macro_rules! with_cfg {
    ($sel:expr, $f:ident, $($arg:expr),*) => {
        match $sel % 12 {
            0 => $f::<bnum::BUintD8<1>, bnum::BIntD8<1>>($($arg),*),
            1 => $f::<bnum::BUintD8<3>, bnum::BIntD8<3>>($($arg),*),
            2 => $f::<bnum::BUintD16<1>, bnum::BIntD16<1>>($($arg),*),
            3 => $f::<bnum::BUintD16<3>, bnum::BIntD16<3>>($($arg),*),
            4 => $f::<bnum::BUintD32<1>, bnum::BIntD32<1>>($($arg),*),
            5 => $f::<bnum::BUintD32<3>, bnum::BIntD32<3>>($($arg),*),
            6 => $f::<bnum::BUint<1>, bnum::BInt<1>>($($arg),*),
            7 => $f::<bnum::BUint<2>, bnum::BInt<2>>($($arg),*),
            8 => $f::<bnum::BUint<3>, bnum::BInt<3>>($($arg),*),
            9 => $f::<bnum::BUintD8<17>, bnum::BIntD8<17>>($($arg),*),
            10 => $f::<bnum::BUintD16<20>, bnum::BIntD16<20>>($($arg),*),
            _ => $f::<bnum::BUint<5>, bnum::BInt<5>>($($arg),*),
        }
    };
}

/// W/8 bytes from the input at `offset`, zero-padded
pub fn take(data: &[u8], offset: usize, n: usize) -> Vec<u8> {
    (0..n).map(|i| data.get(offset + i).copied().unwrap_or(0)).collect()
}
