#![no_main]
//! C10 under coverage-guided fuzzing: bytes -> (configuration, radix, string); the oracle is the
//! outcome-set parse model of the proptest check. A violation is a panic.
use checks::api::{Int, SInt, UInt};
use core::num::IntErrorKind;
use libfuzzer_sys::fuzz_target;
use vlib::parse_model::{digits_expect, parse_expect, Expect, Kind};
mod common;

fn kind_of(e: &bnum::errors::ParseIntError) -> Kind {
    match e.kind() {
        IntErrorKind::Empty => Kind::Empty,
        IntErrorKind::InvalidDigit => Kind::InvalidDigit,
        IntErrorKind::PosOverflow => Kind::PosOverflow,
        IntErrorKind::NegOverflow => Kind::NegOverflow,
        _ => Kind::Other,
    }
}

fn check<T: Int>(s: &[u8], radix: u32) {
    let model = parse_expect(s, radix, T::W as u64, T::SIGNED);
    if let Ok(text) = std::str::from_utf8(s) {
        let got = T::from_str_radix(text, radix);
        match (&model, &got) {
            (Expect::Ok(z), Ok(v)) => assert!(v.z() == *z, "{:?} radix {}: expected {:?}, got {:?}", text, radix, z, v.z()),
            (Expect::Err(k), Err(e)) => assert!(*k == kind_of(e), "{:?} radix {}: expected {:?}, got {:?}", text, radix, k, e.kind()),
            (Expect::AnyErr, Err(_)) => {}
            _ => panic!("{:?} radix {}: expected {:?}, got {:?}", text, radix, model, got.as_ref().map(|v| v.z()).map_err(|e| e.kind().clone())),
        }
        assert!(T::parse_bytes(s, radix).map(|v| v.z()) == got.ok().map(|v| v.z()), "parse_bytes != from_str_radix.ok()");
    } else {
        assert!(T::parse_bytes(s, radix).is_none(), "parse_bytes accepted invalid UTF-8");
    }
}

fn check_digits<T: Int>(digits: &[u8], radix: u32) {
    let exp = digits_expect(digits, radix, T::W as u64);
    let pat = exp.map(|z| z.to_le_wrapped((T::W / 8) as usize));
    assert!(T::from_radix_be(digits, radix).map(|v| v.store()) == pat, "from_radix_be({:?}, {})", digits, radix);
    let mut le = digits.to_vec();
    le.reverse();
    assert!(T::from_radix_le(&le, radix).map(|v| v.store()) == pat, "from_radix_le({:?}, {})", le, radix);
}

fn run<U: UInt, I: SInt>(data: &[u8]) {
    let r = data.get(1).copied().unwrap_or(0) as u32;
    let body = if data.len() > 2 { &data[2..] } else { &[][..] };
    let radix = 2 + r % 35;
    check::<U>(body, radix);
    check::<I>(body, radix);
    let radix2 = 2 + r % 255;
    // map the bytes into digit range most of the time so that the value path is reached
    let digits: Vec<u8> = if r & 1 == 0 { body.iter().map(|&b| (b as u32 % radix2) as u8).collect() } else { body.to_vec() };
    check_digits::<U>(&digits, radix2);
    check_digits::<I>(&digits, radix2);
}

fuzz_target!(|data: &[u8]| {
    let sel = data.first().copied().unwrap_or(0);
    with_cfg!(sel, run, data);
});
