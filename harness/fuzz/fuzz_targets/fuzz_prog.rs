#![no_main]
//! Stateful (model-based) coverage-guided fuzzing: the input is a small register-machine PROGRAM
//! (four W-bit registers + up to 64 instructions drawn from 52 operations of C01-C08, C10, C11, C12,
//! C15). The program is interpreted (a) by a model on the reference integer and (b) by bnum, once for
//! EVERY digit type that can build the width (C16: results never depend on the digit type). After
//! every instruction the register written and every scalar observed must agree with the model, so
//! operands are whatever earlier operations produced, not what a generator thought of.
//! A violation is a panic. Only total (non-panicking) forms are used; the std operators, whose
//! outcome depends on the build mode, are C04 / C17.
use checks::api::{Int, SInt, UInt};
use libfuzzer_sys::fuzz_target;
use vlib::Z;
mod common;
use common::take;

const NOPS: u8 = 52;
const MAX_INSTR: usize = 64;
type Trace = Vec<(usize, u8, Vec<u8>)>;

struct Ins {
    op: u8,
    d: usize,
    a: usize,
    b: usize,
    signed: bool,
    imm: u32,
}

fn decode(data: &[u8], nb: usize) -> (Vec<Vec<u8>>, Vec<Ins>) {
    let regs = (0..4).map(|i| take(data, 1 + i * nb, nb)).collect();
    let start = (1 + 4 * nb).min(data.len());
    let prog = data[start..]
        .chunks_exact(5)
        .take(MAX_INSTR)
        .map(|c| Ins { op: c[0] % NOPS, d: (c[1] & 3) as usize, a: ((c[1] >> 2) & 3) as usize, b: ((c[1] >> 4) & 3) as usize, signed: c[1] & 0x40 != 0, imm: u32::from_le_bytes([c[2], c[3], c[4], 0]) })
        .collect();
    (regs, prog)
}

/// immediate patterns (shared by model and interpreter: pure harness code)
fn imm_pattern(nb: usize, imm: u32) -> Vec<u8> {
    let w = (nb * 8) as u64;
    let k = (imm & 0xffff) as u64 % w;
    let z = match (imm >> 16) & 7 {
        0 => Z::zero(),
        1 => Z::one(),
        2 => Z::from_i64(-1),
        3 => Z::pow2(k).add_i(-1),
        4 => Z::pow2(k),
        5 => Z::from_i64((imm & 0xffff) as u16 as i16 as i64),
        6 => Z::pow2(w - 1),
        _ => Z::pow2(k).neg(),
    };
    z.to_le_wrapped(nb)
}

/// shift / rotate amounts: mostly below 2W, sometimes huge
fn amount(imm: u32, w: u32) -> u32 {
    if imm & 0x80_0000 != 0 {
        (imm << 9) | (imm & 0x1ff)
    } else {
        (imm & 0xffff) % (2 * w + 2)
    }
}

fn hex_of(p: &[u8]) -> String {
    let s: String = p.iter().rev().map(|b| format!("{:02x}", b)).collect();
    let t = s.trim_start_matches('0');
    if t.is_empty() { "0".into() } else { t.into() }
}

fn bin_of(p: &[u8]) -> String {
    let s: String = p.iter().rev().map(|b| format!("{:08b}", b)).collect();
    let t = s.trim_start_matches('0');
    if t.is_empty() { "0".into() } else { t.into() }
}

fn opt_u32(v: Option<u32>) -> Vec<u8> {
    match v {
        None => vec![0xff],
        Some(x) => x.to_le_bytes().to_vec(),
    }
}

// ---------------------------------------------------------------------------------------------
// the model
// ---------------------------------------------------------------------------------------------
fn model(data: &[u8], nb: usize) -> Trace {
    let w = (nb * 8) as u64;
    let (mut r, prog) = decode(data, nb);
    let mut tr: Trace = Vec::new();
    for (pc, i) in prog.iter().enumerate() {
        let s = i.signed;
        let (pa, pb) = (r[i.a].clone(), r[i.b].clone());
        let (a, b) = (Z::from_le(&pa, s), Z::from_le(&pb, s));
        let (ua, ub) = (Z::from_le_unsigned(&pa), Z::from_le_unsigned(&pb));
        let wr = |z: &Z| z.to_le_wrapped(nb);
        let min = Z::min_of(w, s);
        let div_undefined = b.is_zero() || (s && a == min && b == Z::from_i64(-1));
        let mut out: Option<Vec<u8>> = None; // register write
        let mut obs: Vec<u8> = Vec::new(); // scalar observations
        match i.op {
            0 => out = Some(wr(&a.add(&b))),
            1 => out = Some(wr(&a.sub(&b))),
            2 => out = Some(wr(&a.mul(&b))),
            3 | 4 | 5 | 6 => {
                if div_undefined {
                    obs.push(0);
                } else {
                    let (qt, rt) = a.divrem_trunc(&b);
                    let (qe, re) = a.divrem_euclid(&b);
                    out = Some(wr(match i.op { 3 => &qt, 4 => &rt, 5 => &qe, _ => &re }));
                }
            }
            7 => out = Some(wr(&a.neg())),
            8 => {
                let n = amount(i.imm, w as u32) as u64;
                out = Some(if n >= w { vec![0; nb] } else { wr(&ua.shl(n)) });
            }
            9 => {
                let n = amount(i.imm, w as u32) as u64;
                out = Some(if n >= w { wr(&if a.is_neg() { Z::from_i64(-1) } else { Z::zero() }) } else { wr(&a.shr_floor(n)) });
            }
            10 | 11 => {
                let n = amount(i.imm, w as u32) as u64 % w;
                let n = if i.op == 10 { n } else { (w - n) % w };
                let mut o = vec![0u8; nb];
                for k in 0..w as usize {
                    if (pa[k / 8] >> (k % 8)) & 1 == 1 {
                        let j = (k + n as usize) % w as usize;
                        o[j / 8] |= 1 << (j % 8);
                    }
                }
                out = Some(o);
            }
            12 => out = Some(pa.iter().zip(&pb).map(|(x, y)| x & y).collect()),
            13 => out = Some(pa.iter().zip(&pb).map(|(x, y)| x | y).collect()),
            14 => out = Some(pa.iter().zip(&pb).map(|(x, y)| x ^ y).collect()),
            15 => out = Some(pa.iter().map(|x| !x).collect()),
            16 => out = Some(wr(&ua.pow_mod_2k(i.imm % 80, w))),
            17 => out = Some(wr(&a.sub(&b).abs())),
            18 => {
                let two = Z::from_i64(2);
                let sum = a.add(&b);
                out = Some(wr(&if s { sum.divrem_trunc(&two).0 } else { sum.divrem_floor(&two).0 }));
            }
            19 => out = Some(pa.iter().rev().copied().collect()),
            20 => out = Some(pa.iter().rev().map(|x| x.reverse_bits()).collect()),
            21 => {
                let bit = |k: usize| (pa[k / 8] >> (k % 8)) & 1 == 1;
                let wu = w as usize;
                let ones = (0..wu).filter(|&k| bit(k)).count() as u32;
                let lz = (0..wu).rev().take_while(|&k| !bit(k)).count() as u32;
                let tz = (0..wu).take_while(|&k| !bit(k)).count() as u32;
                let lo = (0..wu).rev().take_while(|&k| bit(k)).count() as u32;
                let to = (0..wu).take_while(|&k| bit(k)).count() as u32;
                for v in [ones, w as u32 - ones, lz, tz, lo, to, w as u32 - lz] {
                    obs.extend(v.to_le_bytes());
                }
                obs.push((ones == 1) as u8);
            }
            22 => {
                obs.push(match a.partial_cmp(&b).unwrap() { core::cmp::Ordering::Less => 0, core::cmp::Ordering::Equal => 1, _ => 2 });
                obs.push((pa == pb) as u8);
            }
            23 => out = Some(wr(if a <= b { &a } else { &b })),
            24 => out = Some(wr(if a >= b { &a } else { &b })),
            25 => out = Some(wr(&a.add(&b).clamp_to(w, s))),
            26 => out = Some(wr(&a.sub(&b).clamp_to(w, s))),
            27 => out = Some(wr(&a.mul(&b).clamp_to(w, s))),
            28 | 29 => {
                let c = Z::from_i64((i.imm & 1) as i64);
                let e = if i.op == 28 { a.add(&b).add(&c) } else { a.sub(&b).sub(&c) };
                obs.push(!e.fits(w, s) as u8);
                out = Some(wr(&e));
            }
            30 => {
                let p = ua.mul(&ub);
                out = Some(wr(&p));
                obs = wr(&p.shr_floor(w)); // high half: written to the next register
            }
            31 => {
                let p = if ua.is_zero() { Z::one() } else { Z::pow2(ua.add_i(-1).bit_len()) };
                if p.fits(w, false) { out = Some(wr(&p)) } else { obs.push(0) }
            }
            32 => {
                let radix = 2 + i.imm % 35;
                obs = a.to_str_radix(radix).into_bytes();
                out = Some(pa.clone());
            }
            33 => out = Some(imm_pattern(nb, i.imm)),
            34 | 35 => {
                if div_undefined {
                    obs.push(0);
                } else {
                    out = Some(wr(&if i.op == 34 { a.divrem_floor(&b).0 } else { a.divrem_ceil(&b).0 }));
                }
            }
            36 => {
                if b.is_zero() {
                    obs.push(0);
                } else {
                    let m = a.divrem_ceil(&b).0.mul(&b);
                    if m.fits(w, s) { out = Some(wr(&m)) } else { obs.push(0) }
                }
            }
            37 => obs = opt_u32(if a.is_pos() { Some(a.bit_len() as u32 - 1) } else { None }),
            38 | 39 => {
                let base = if i.op == 38 { Z::from_i64(10) } else { b.clone() };
                obs = opt_u32(if a.is_pos() && base > Z::one() {
                    let mut k = 0u32;
                    let mut p = base.clone();
                    while p <= a {
                        p = p.mul(&base);
                        k += 1;
                    }
                    Some(k)
                } else {
                    None
                });
            }
            40 => {
                let k = (i.imm & 0xffff) as usize % w as usize;
                let mut o = pa.clone();
                if i.imm & 0x10000 != 0 { o[k / 8] |= 1 << (k % 8) } else { o[k / 8] &= !(1 << (k % 8)) }
                obs.push((pa[k / 8] >> (k % 8)) & 1);
                out = Some(o);
            }
            41 => {
                let e = a.mul(&b);
                obs.push(!e.fits(w, s) as u8);
                out = Some(wr(&e));
            }
            42 | 43 => {
                let e = if i.op == 42 { a.add(&b) } else { a.sub(&b) };
                obs.push(!e.fits(w, s) as u8);
                out = Some(wr(&e));
            }
            44 | 45 => {
                let n = amount(i.imm, w as u32) as u64;
                if n >= w {
                    obs.push(0);
                } else {
                    out = Some(wr(&if i.op == 44 { ua.shl(n) } else { a.shr_floor(n) }));
                }
            }
            46 => {
                let e = i.imm % 40;
                let exact = a.pow_capped(e, w + 2);
                obs.push(exact.map_or(true, |p| !p.fits(w, s)) as u8);
                out = Some(wr(&ua.pow_mod_2k(e, w)));
            }
            47 | 48 => {
                // slice decoding of the low k bytes (always representable: k <= BYTES)
                let k = (i.imm & 0xffff) as usize % (nb + 1);
                out = Some(wr(&if k == 0 { Z::zero() } else { Z::from_le(&pa[..k], s) }));
            }
            49 => {
                let radix = 2 + i.imm % 255;
                obs = ua.to_radix_be(radix);
                out = Some(pa.clone());
            }
            50 => {
                obs = format!("{}|{}|{}", hex_of(&pa), bin_of(&pa), a.to_str_radix(10)).into_bytes();
            }
            _ => {
                // unsigned_abs / cast reinterpretation: |a| as a W-bit pattern
                out = Some(wr(&a.abs()));
            }
        }
        if let Some(o) = &out {
            r[i.d] = o.clone();
            if i.op == 30 {
                r[(i.d + 1) & 3] = obs.clone();
            }
        }
        tr.push((pc, i.op, [out.unwrap_or_default(), vec![0xee], obs].concat()));
    }
    tr
}

// ---------------------------------------------------------------------------------------------
// the interpreter over one bnum digit type
// ---------------------------------------------------------------------------------------------
fn exec<T: UInt>(data: &[u8]) -> Trace {
    let nb = (T::W / 8) as usize;
    let w = T::W;
    let (regs, prog) = decode(data, nb);
    let mut r: Vec<T> = regs.iter().map(|p| T::load(p)).collect();
    let mut tr: Trace = Vec::new();
    for (pc, i) in prog.iter().enumerate() {
        let (a, b) = (r[i.a], r[i.b]);
        let (sa, sb) = (<T::I as Int>::load(&a.store()), <T::I as Int>::load(&b.store()));
        let s = i.signed;
        let mut out: Option<Vec<u8>> = None;
        let mut obs: Vec<u8> = Vec::new();
        macro_rules! both {
            (|$x:ident, $y:ident| $e:expr) => {
                if s { let ($x, $y) = (sa, sb); $e } else { let ($x, $y) = (a, b); $e }
            };
        }
        macro_rules! val { (|$x:ident, $y:ident| $e:expr) => { out = Some(both!(|$x, $y| $e.store())) }; }
        macro_rules! opt {
            (|$x:ident, $y:ident| $e:expr) => {
                match both!(|$x, $y| $e.map(|v| v.store())) { Some(v) => out = Some(v), None => obs.push(0) }
            };
        }
        macro_rules! flagged {
            (|$x:ident, $y:ident| $e:expr) => {{
                let (v, f) = both!(|$x, $y| { let (v, f) = $e; (v.store(), f) });
                obs.push(f as u8);
                out = Some(v);
            }};
        }
        let div_undefined = both!(|x, y| { let _ = x; y.is_zero() }) || (s && sa == <T::I as Int>::k_min() && sb.store().iter().all(|&v| v == 0xff));
        match i.op {
            0 => val!(|x, y| x.wrapping_add(y)),
            1 => val!(|x, y| x.wrapping_sub(y)),
            2 => val!(|x, y| x.wrapping_mul(y)),
            3 => opt!(|x, y| x.checked_div(y)),
            4 => opt!(|x, y| x.checked_rem(y)),
            5 => opt!(|x, y| x.checked_div_euclid(y)),
            6 => opt!(|x, y| x.checked_rem_euclid(y)),
            7 => val!(|x, _y| x.wrapping_neg()),
            8 => val!(|x, _y| x.unbounded_shl(amount(i.imm, w))),
            9 => val!(|x, _y| x.unbounded_shr(amount(i.imm, w))),
            10 => val!(|x, _y| x.rotate_left(amount(i.imm, w))),
            11 => val!(|x, _y| x.rotate_right(amount(i.imm, w))),
            12 => val!(|x, y| x & y),
            13 => val!(|x, y| x | y),
            14 => val!(|x, y| x ^ y),
            15 => val!(|x, _y| !x),
            16 => val!(|x, _y| x.wrapping_pow(i.imm % 80)),
            17 => val!(|x, y| x.abs_diff(y)),
            18 => val!(|x, y| x.midpoint(y)),
            19 => val!(|x, _y| x.swap_bytes()),
            20 => val!(|x, _y| x.reverse_bits()),
            21 => {
                for v in [a.count_ones(), a.count_zeros(), a.leading_zeros(), a.trailing_zeros(), a.leading_ones(), a.trailing_ones(), a.bits()] {
                    obs.extend(v.to_le_bytes());
                }
                // the signed view must report the same counts of the same pattern
                assert!(sa.count_ones() == a.count_ones() && sa.leading_zeros() == a.leading_zeros() && sa.trailing_ones() == a.trailing_ones(), "bit counts differ between BInt and BUint of one pattern");
                obs.push(a.is_power_of_two() as u8);
            }
            22 => {
                obs.push(both!(|x, y| match x.cmp(&y) { core::cmp::Ordering::Less => 0, core::cmp::Ordering::Equal => 1, _ => 2 }));
                obs.push(both!(|x, y| (x == y) as u8));
            }
            23 => val!(|x, y| core::cmp::Ord::min(x, y)),
            24 => val!(|x, y| core::cmp::Ord::max(x, y)),
            25 => val!(|x, y| x.saturating_add(y)),
            26 => val!(|x, y| x.saturating_sub(y)),
            27 => val!(|x, y| x.saturating_mul(y)),
            28 => flagged!(|x, y| x.carrying_add(y, i.imm & 1 == 1)),
            29 => flagged!(|x, y| x.borrowing_sub(y, i.imm & 1 == 1)),
            30 => {
                let (lo, hi) = a.widening_mul(b);
                out = Some(lo.store());
                obs = hi.store();
            }
            31 => match a.checked_next_power_of_two() { Some(v) => out = Some(v.store()), None => obs.push(0) },
            32 => {
                let radix = 2 + i.imm % 35;
                let text = both!(|x, _y| x.to_str_radix(radix));
                out = Some(both!(|x, _y| parse_back(x, &text, radix)));
                obs = text.into_bytes();
            }
            33 => out = Some(imm_pattern(nb, i.imm)),
            34 => { if div_undefined { obs.push(0) } else { val!(|x, y| x.div_floor(y)) } }
            35 => { if div_undefined { obs.push(0) } else { val!(|x, y| x.div_ceil(y)) } }
            36 => opt!(|x, y| x.checked_next_multiple_of(y)),
            37 => obs = opt_u32(both!(|x, _y| x.checked_ilog2())),
            38 => obs = opt_u32(both!(|x, _y| x.checked_ilog10())),
            39 => obs = opt_u32(both!(|x, y| x.checked_ilog(y))),
            40 => {
                let k = (i.imm & 0xffff) % w;
                let mut v = a;
                obs.push(a.bit(k) as u8);
                v.set_bit_(k, i.imm & 0x10000 != 0);
                out = Some(v.store());
            }
            41 => flagged!(|x, y| x.overflowing_mul(y)),
            42 => flagged!(|x, y| x.overflowing_add(y)),
            43 => flagged!(|x, y| x.overflowing_sub(y)),
            44 => opt!(|x, _y| x.checked_shl(amount(i.imm, w))),
            45 => opt!(|x, _y| x.checked_shr(amount(i.imm, w))),
            46 => flagged!(|x, _y| x.overflowing_pow(i.imm % 40)),
            47 => {
                let k = (i.imm & 0xffff) as usize % (nb + 1);
                let bytes = a.store();
                match both!(|x, _y| le_slice(x, &bytes[..k])) { Some(v) => out = Some(v), None => obs.push(0) }
            }
            48 => {
                let k = (i.imm & 0xffff) as usize % (nb + 1);
                let mut bytes = a.store()[..k].to_vec();
                bytes.reverse();
                match both!(|x, _y| be_slice(x, &bytes)) { Some(v) => out = Some(v), None => obs.push(0) }
            }
            49 => {
                let radix = 2 + i.imm % 255;
                let digits = both!(|x, _y| x.to_radix_be(radix));
                let mut le = digits.clone();
                le.reverse();
                assert!(both!(|x, _y| x.to_radix_le(radix)) == le, "to_radix_le is not the reverse of to_radix_be (radix {radix})");
                out = Some(both!(|x, _y| radix_back(x, &digits, radix)));
                obs = digits;
            }
            50 => {
                obs = both!(|x, _y| format!("{:x}|{:b}|{}", x, x, x)).into_bytes();
            }
            _ => {
                out = Some(if s { sa.unsigned_abs().store() } else { a.store() });
            }
        }
        if let Some(o) = &out {
            if o.len() == nb {
                r[i.d] = T::load(o);
                if i.op == 30 {
                    r[(i.d + 1) & 3] = T::load(&obs);
                }
            }
        }
        tr.push((pc, i.op, [out.unwrap_or_default(), vec![0xee], obs].concat()));
    }
    tr
}

// static functions called on the type of a witness value (0xbd = "did not parse back")
fn parse_back<X: Int>(_w: X, text: &str, radix: u32) -> Vec<u8> {
    <X as Int>::from_str_radix(text, radix).map(|v| v.store()).unwrap_or_else(|_| vec![0xbd])
}
fn radix_back<X: Int>(_w: X, digits: &[u8], radix: u32) -> Vec<u8> {
    <X as Int>::from_radix_be(digits, radix).map(|v| v.store()).unwrap_or_else(|| vec![0xbd])
}
fn le_slice<X: Int>(_w: X, b: &[u8]) -> Option<Vec<u8>> {
    <X as Int>::from_le_slice(b).map(|v| v.store())
}
fn be_slice<X: Int>(_w: X, b: &[u8]) -> Option<Vec<u8>> {
    <X as Int>::from_be_slice(b).map(|v| v.store())
}

fn compare(name: &str, m: &Trace, t: &Trace, data: &[u8]) {
    for (x, y) in m.iter().zip(t.iter()) {
        if x != y {
            panic!("fuzz_prog: {} disagrees with the reference model at instruction {} (operation {}): model {:02x?}, bnum {:02x?}; input {:02x?}", name, x.0, x.1, x.2, y.2, data);
        }
    }
    assert!(m.len() == t.len());
}

macro_rules! group {
    ($data:expr, $nb:expr, $($T:ty),+) => {{
        let m = model($data, $nb);
        $( compare(&<$T as Int>::tname(), &m, &exec::<$T>($data), $data); )+
    }};
}

fuzz_target!(|data: &[u8]| {
    use bnum::{BUint, BUintD16, BUintD32, BUintD8};
    match data.first().copied().unwrap_or(0) % 6 {
        0 => group!(data, 8, BUintD8<8>, BUintD16<4>, BUintD32<2>, BUint<1>),
        1 => group!(data, 24, BUintD8<24>, BUintD16<12>, BUintD32<6>, BUint<3>),
        2 => group!(data, 6, BUintD8<6>, BUintD16<3>),
        3 => group!(data, 40, BUintD8<40>, BUintD16<20>, BUintD32<10>, BUint<5>),
        4 => group!(data, 16, BUintD8<16>, BUintD16<8>, BUintD32<4>, BUint<2>),
        _ => group!(data, 12, BUintD8<12>, BUintD16<6>, BUintD32<3>),
    }
});
