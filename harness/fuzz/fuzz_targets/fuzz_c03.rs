#![no_main]
//! C03 under coverage-guided fuzzing: bytes -> (configuration, dividend, divisor); the oracle is
//! the same shift-subtract reference division as in the proptest check. A violation is a panic.
use checks::api::{Int, SInt, UInt};
use libfuzzer_sys::fuzz_target;
use vlib::Z;
mod common;
use common::take;

fn check<T: Int>(n: T, d: T) {
    let (zn, zd) = (n.z(), d.z());
    if zd.is_zero() {
        assert!(n.checked_div(d).is_none() && n.checked_rem(d).is_none() && n.checked_div_euclid(d).is_none() && n.checked_rem_euclid(d).is_none(), "checked forms must return None for a zero divisor");
        return;
    }
    let w = T::W as u64;
    if T::SIGNED && zn == Z::min_of(w, true) && zd == Z::from_i64(-1) {
        assert!(n.checked_div(d).is_none() && n.checked_rem(d).is_none());
        let (q, f) = n.overflowing_div(d);
        assert!(q.z() == zn && f, "overflowing_div(MIN, -1)");
        return;
    }
    let (q, r) = zn.divrem_trunc(&zd);
    assert!((n / d).z() == q, "operator / : n={:?} d={:?}", zn, zd);
    assert!((n % d).z() == r, "operator % : n={:?} d={:?}", zn, zd);
    assert!(n.checked_div(d).map(|v| v.z()) == Some(q.clone()), "checked_div");
    assert!(n.checked_rem(d).map(|v| v.z()) == Some(r.clone()), "checked_rem");
    let (qe, re) = zn.divrem_euclid(&zd);
    assert!(n.div_euclid(d).z() == qe && n.rem_euclid(d).z() == re, "euclid: n={:?} d={:?}", zn, zd);
    assert!(n.div_floor(d).z() == zn.divrem_floor(&zd).0, "div_floor: n={:?} d={:?}", zn, zd);
    let qc = zn.divrem_ceil(&zd).0;
    assert!(n.div_ceil(d).z() == qc, "div_ceil: n={:?} d={:?}", zn, zd);
    let m = qc.mul(&zd);
    let exp = if m.fits(w, T::SIGNED) { Some(m) } else { None };
    assert!(n.checked_next_multiple_of(d).map(|v| v.z()) == exp, "checked_next_multiple_of: n={:?} d={:?}", zn, zd);
}

fn run<U: UInt, I: SInt>(data: &[u8]) {
    let nb = (U::W / 8) as usize;
    // a length byte shortens the divisor so that multi-digit quotients are common
    let keep = data.get(1).copied().unwrap_or(0) as usize % (nb + 1);
    let n = take(data, 2, nb);
    let mut d = take(data, 2 + nb, nb);
    for b in d.iter_mut().skip(nb - keep.min(nb)) {
        *b = 0;
    }
    check::<U>(U::load(&n), U::load(&d));
    // signed: sign-extend the shortened divisor according to a flag bit
    if data.get(1).copied().unwrap_or(0) & 0x80 != 0 {
        let zd = Z::from_le_unsigned(&d).neg();
        d = zd.to_le_wrapped(nb);
    }
    check::<I>(I::load(&n), I::load(&d));
}

fuzz_target!(|data: &[u8]| {
    let sel = data.first().copied().unwrap_or(0);
    with_cfg!(sel, run, data);
});
