#![no_main]
//! C14 under coverage-guided fuzzing: bytes -> (configuration, float bits, integer pattern); the
//! oracle is the float model of the proptest check, compared bit-for-bit. A violation is a panic.
use bnum::cast::{As, CastFrom};
use checks::api::{Int, SInt, UInt};
use libfuzzer_sys::fuzz_target;
use vlib::float_model::{float_to_int, int_to_float, F32, F64};
mod common;
use common::take;

fn check<T: Int + CastFrom<f32> + CastFrom<f64>>(bits: u64, pat: &[u8])
where
    f32: CastFrom<T>,
    f64: CastFrom<T>,
{
    let w = T::W as u64;
    let e = float_to_int(bits, F64, w, T::SIGNED);
    assert!(f64::from_bits(bits).as_::<T>().z() == e, "f64 {:#x} as {}: expected {:?}", bits, T::tname(), e);
    let b32 = bits as u32;
    let e = float_to_int(b32 as u64, F32, w, T::SIGNED);
    assert!(f32::from_bits(b32).as_::<T>().z() == e, "f32 {:#x} as {}: expected {:?}", b32, T::tname(), e);
    let x = T::load(pat);
    let z = x.z();
    assert!(x.as_::<f64>().to_bits() == int_to_float(&z, F64), "{:?} as f64", z);
    assert!(x.as_::<f32>().to_bits() as u64 == int_to_float(&z, F32), "{:?} as f32", z);
}

fn run<U, I>(data: &[u8])
where
    U: UInt + CastFrom<f32> + CastFrom<f64>,
    I: SInt + CastFrom<f32> + CastFrom<f64>,
    f32: CastFrom<U> + CastFrom<I>,
    f64: CastFrom<U> + CastFrom<I>,
{
    let nb = (U::W / 8) as usize;
    let bits = u64::from_le_bytes(take(data, 1, 8).try_into().unwrap());
    let pat = take(data, 9, nb);
    check::<U>(bits, &pat);
    check::<I>(bits, &pat);
}

fuzz_target!(|data: &[u8]| {
    let sel = data.first().copied().unwrap_or(0);
    with_cfg!(sel, run, data);
});
