//! Operand generators: W-bit operands are generated as abstract little-endian bit patterns,
//! independent of the digit type, from a weighted union of constructive sources (no rejection).

use crate::case::Pat;
use crate::refint::Z;
use proptest::collection::vec;
use proptest::prelude::*;

/// shape of the type the pattern is destined for
#[derive(Clone, Copy, Debug)]
pub struct Shape {
    pub bytes: usize,       // BITS / 8
    pub digit_bytes: usize, // 1, 2, 4, 8
}
impl Shape {
    pub fn new(bits: u32, digit_bits: u32) -> Shape {
        Shape { bytes: (bits / 8) as usize, digit_bytes: (digit_bits / 8) as usize }
    }
    pub fn bits(&self) -> u32 {
        (self.bytes * 8) as u32
    }
    pub fn digit_bits(&self) -> u32 {
        (self.digit_bytes * 8) as u32
    }
    pub fn n(&self) -> usize {
        self.bytes / self.digit_bytes
    }
}

fn fix_len(mut v: Vec<u8>, n: usize, fill: u8) -> Vec<u8> {
    v.resize(n, fill);
    v
}

fn set_bit(v: &mut [u8], i: usize, on: bool) {
    if i / 8 < v.len() {
        if on {
            v[i / 8] |= 1 << (i % 8);
        } else {
            v[i / 8] &= !(1 << (i % 8));
        }
    }
}

/// 1. uniform bytes
pub fn uniform(sh: Shape) -> BoxedStrategy<Pat> {
    vec(any::<u8>(), sh.bytes).prop_map(Pat).boxed()
}

fn run_len(sh: Shape) -> BoxedStrategy<u32> {
    let d = sh.digit_bits();
    let w = sh.bits();
    let n = sh.n() as u32;
    prop_oneof![
        3 => 1u32..8,
        2 => Just(d),
        2 => (d.saturating_sub(2).max(1))..=(d + 2),
        2 => (1u32..=n).prop_map(move |k| k * d),
        1 => (1u32..=n, 0u32..3).prop_map(move |(k, e)| (k * d + e).saturating_sub(1).max(1)),
        1 => 1u32..=w,
    ]
    .boxed()
}

/// 2. concatenated runs of 0-bits and 1-bits (from the least significant end); the last run extends to the top
pub fn runs(sh: Shape) -> BoxedStrategy<Pat> {
    (any::<bool>(), vec(run_len(sh), 1..6))
        .prop_map(move |(first, lens)| {
            let mut v = vec![0u8; sh.bytes];
            let total = sh.bytes * 8;
            let mut pos = 0usize;
            let mut on = first;
            for (k, l) in lens.iter().enumerate() {
                let end = if k + 1 == lens.len() { total } else { (pos + *l as usize).min(total) };
                if on {
                    for i in pos..end {
                        set_bit(&mut v, i, true);
                    }
                }
                pos = end;
                on = !on;
                if pos >= total {
                    break;
                }
            }
            Pat(v)
        })
        .boxed()
}

/// a digit value of `digit_bytes` bytes drawn from extremes / powers of two / uniform, as u64
pub fn digit_value(digit_bytes: usize) -> BoxedStrategy<u64> {
    let db = (digit_bytes * 8) as u32;
    let max: u64 = if db == 64 { u64::MAX } else { (1u64 << db) - 1 };
    let half: u64 = 1u64 << (db - 1);
    prop_oneof![
        4 => Just(0u64),
        2 => Just(1u64),
        1 => Just(2u64),
        4 => Just(max),
        2 => Just(max - 1),
        2 => Just(half),
        1 => Just(half - 1),
        1 => Just(half + 1),
        2 => (0u32..db).prop_map(|k| 1u64 << k),
        2 => (1u32..=db).prop_map(move |k| if k == 64 { u64::MAX } else { (1u64 << k) - 1 }),
        4 => any::<u64>().prop_map(move |x| x & max),
    ]
    .boxed()
}

/// SHORT-DIVISION BOUNDARY FAMILY. A value built from binary-aligned chunks (whole digits or half
/// digits) each of which is a small multiple of `base` or its neighbour: c_i in {0, base, 2*base,
/// 3*base, base - 1, base + 1, uniform}. Dividing such a value by `base` digit by digit (what
/// `div_rem_digit` does, directly or inside a radix conversion) keeps the running remainder at zero,
/// so that the partial dividend of a step EQUALS the divisor (or misses it by one) - the boundary of
/// every short-division fast path. `base` must be non-zero and below 2^digit_bits.
pub fn base_aligned(sh: Shape, base: u64) -> BoxedStrategy<Pat> {
    let db = sh.digit_bits() as usize;
    let bytes = sh.bytes;
    let chunk_sel = proptest::collection::vec((0u8..12, any::<u64>()), 2 * sh.n().min(64));
    (prop_oneof![Just(db), Just(db / 2)], chunk_sel, 0usize..=2 * sh.n().min(64)).prop_map(move |(a, sel, used)| {
        // a = chunk width in bits (a multiple of 4 and >= 4)
        let mask: u64 = if a >= 64 { u64::MAX } else { (1u64 << a) - 1 };
        let total = bytes * 8 / a;
        let mut out = vec![0u8; bytes];
        for i in 0..total.min(sel.len()).min(used.max(1)) {
            let (k, rnd) = sel[i];
            let c: u64 = match k {
                0 | 1 | 2 => 0,
                3 | 4 | 5 => base,
                6 => base.wrapping_mul(2),
                7 => base.wrapping_mul(3),
                8 => base.wrapping_sub(1),
                9 => base.wrapping_add(1),
                10 => (rnd % 7).wrapping_mul(base),
                _ => rnd,
            };
            // a multiple that does not fit the chunk is dropped (a zero chunk keeps the remainder at zero)
            let c = if c > mask && k != 11 { 0 } else { c & mask };
            // write chunk i (a bits, a/8 bytes when a >= 8; a = 4 only for u8 digits)
            if a >= 8 {
                let nb = a / 8;
                out[i * nb..(i + 1) * nb].copy_from_slice(&c.to_le_bytes()[..nb]);
            } else {
                out[i / 2] |= ((c & 0xf) as u8) << (4 * (i % 2));
            }
        }
        Pat(out)
    })
    .boxed()
}

/// 3. every digit drawn from the extreme-value table
pub fn digitwise(sh: Shape) -> BoxedStrategy<Pat> {
    let db = sh.digit_bytes;
    vec(digit_value(db), sh.n())
        .prop_map(move |ds| {
            let mut v = Vec::with_capacity(sh.bytes);
            for d in ds {
                v.extend_from_slice(&d.to_le_bytes()[..db]);
            }
            Pat(v)
        })
        .boxed()
}

/// the boundary table: small constants, MAX, signed MIN and neighbours, powers of two and neighbours
pub fn boundary_values(sh: Shape) -> Vec<Pat> {
    let w = sh.bits() as u64;
    let d = sh.digit_bits() as u64;
    let mut zs: Vec<Z> = Vec::new();
    for c in [0i64, 1, 2, 3, 4, 5, 7, 9, 10, 11, 16, 100, -1, -2, -3, -4, -5, -9, -10, -11] {
        zs.push(Z::from_i64(c));
    }
    let smin = Z::pow2(w - 1).neg();
    zs.push(smin.clone());
    zs.push(smin.add_i(1));
    zs.push(smin.add_i(2));
    zs.push(smin.add_i(-1)); // = signed MAX as a pattern
    zs.push(smin.add_i(-2));
    let mut ks: Vec<u64> = vec![1, 2, 7, 8, w / 2, w - 2, w - 1];
    let mut k = d;
    while k < w {
        ks.push(k - 1);
        ks.push(k);
        ks.push(k + 1);
        k += d;
        if ks.len() > 60 {
            // at very large N only a spread of digit boundaries
            k += d * ((w / d) / 8).max(1);
        }
    }
    ks.retain(|&k| k < w);
    ks.sort();
    ks.dedup();
    for k in ks {
        let p = Z::pow2(k);
        zs.push(p.clone());
        zs.push(p.add_i(1));
        zs.push(p.add_i(-1));
        zs.push(p.neg());
        zs.push(p.neg().add_i(1));
        zs.push(p.neg().add_i(-1));
    }
    zs.into_iter().map(|z| Pat(z.to_le_wrapped(sh.bytes))).collect()
}

/// 4. boundary values
pub fn boundary(sh: Shape) -> BoxedStrategy<Pat> {
    let table = boundary_values(sh);
    (0..table.len()).prop_map(move |i| table[i].clone()).boxed()
}

/// 5. short values: only the lowest k digits (rest zero or sign fill), or only the top digit
pub fn short(sh: Shape) -> BoxedStrategy<Pat> {
    let n = sh.n();
    let db = sh.digit_bytes;
    (vec(any::<u8>(), sh.bytes), 1..=n, 0u8..4)
        .prop_map(move |(raw, k, mode)| {
            let mut v = raw;
            match mode {
                0 | 1 => {
                    let fill = if mode == 0 { 0x00 } else { 0xff };
                    for b in v.iter_mut().skip(k * db) {
                        *b = fill;
                    }
                }
                2 => {
                    // only the top digit non-zero
                    for b in v.iter_mut().take((n - 1) * db) {
                        *b = 0;
                    }
                }
                _ => {
                    // low k digits zero
                    for b in v.iter_mut().take((k.min(n - 1)) * db) {
                        *b = 0;
                    }
                }
            }
            Pat(v)
        })
        .boxed()
}

/// the standard W-bit operand pattern
pub fn pattern(sh: Shape) -> BoxedStrategy<Pat> {
    prop_oneof![
        15 => uniform(sh),
        25 => runs(sh),
        25 => digitwise(sh),
        15 => boundary(sh),
        10 => short(sh),
    ]
    .boxed()
}

/// derive a second operand from `a` (selector `sel`, auxiliary pattern `aux`, position `k`)
pub fn derive(sh: Shape, a: &Pat, aux: &Pat, sel: u8, k: u32) -> Pat {
    let w = sh.bits() as u64;
    let nb = sh.bytes;
    let za = Z::from_le_unsigned(&a.0);
    let k = (k as u64) % w;
    let z = match sel % 12 {
        0 => za.clone(),
        1 => za.neg(),
        2 => za.add_i(1).neg(), // !a
        3 => za.add_i(1),
        4 => za.add_i(-1),
        5 => za.add(&Z::pow2(k)),
        6 => za.sub(&Z::pow2(k)),
        7 => za.shr_floor(k),
        8 => {
            // share the top digits with a: replace the low k bits by aux's
            let low = Z::from_le_unsigned(&aux.0).mod_2k(k);
            za.shr_floor(k).shl(k).add(&low)
        }
        9 => {
            // change one digit of a to aux's digit
            let db = sh.digit_bytes;
            let idx = (k as usize / 8 / db).min(sh.n() - 1);
            let mut v = a.0.clone();
            v[idx * db..(idx + 1) * db].copy_from_slice(&aux.0[idx * db..(idx + 1) * db]);
            return Pat(v);
        }
        10 => za.neg().add_i(1),
        _ => za.shl(k),
    };
    Pat(fix_len(z.to_le_wrapped(nb), nb, 0))
}

/// pair of operands; the second is independent (70 %) or derived from the first (30 %)
pub fn pattern_pair(sh: Shape) -> BoxedStrategy<(Pat, Pat)> {
    (pattern(sh), pattern(sh), prop_oneof![7 => Just(255u8), 3 => 0u8..12], 0u32..sh.bits())
        .prop_map(move |(a, b, sel, k)| {
            if sel == 255 {
                (a, b)
            } else {
                let d = derive(sh, &a, &b, sel, k);
                (a, d)
            }
        })
        .boxed()
}

/// shift / rotate amounts with the structural boundaries
pub fn amount(sh: Shape) -> BoxedStrategy<u32> {
    let d = sh.digit_bits();
    let w = sh.bits();
    let n = sh.n() as u32;
    prop_oneof![
        2 => Just(0u32),
        2 => Just(1u32),
        1 => Just(d - 1),
        1 => Just(d),
        1 => Just(d + 1),
        3 => (0u32..=n, 0u32..3).prop_map(move |(k, e)| (k * d + e).saturating_sub(1)),
        2 => Just(w - 1),
        2 => Just(w),
        1 => Just(w + 1),
        1 => Just(2 * w - 1),
        1 => Just(2 * w),
        1 => Just(u32::MAX),
        1 => Just(u32::MAX - 1),
        6 => 0u32..w,
        2 => 0u32..(2 * w),
        1 => any::<u32>(),
        1 => (0u32..32).prop_map(move |k| (1u32 << k).wrapping_add(w).wrapping_sub(1)),
    ]
    .boxed()
}

/// in-range amounts only (0..W) with the structural boundaries
pub fn amount_in_range(sh: Shape) -> BoxedStrategy<u32> {
    let w = sh.bits();
    amount(sh).prop_map(move |s| s % w).boxed()
}

/// bit index < W
pub fn bit_index(sh: Shape) -> BoxedStrategy<u32> {
    amount_in_range(sh)
}

/// load helpers: digit arrays from byte patterns
pub trait Digit: Copy + Default + 'static {
    const BYTES: usize;
    fn from_le(b: &[u8]) -> Self;
    fn push_le(self, out: &mut Vec<u8>);
    fn to_u64(self) -> u64;
    fn from_u64(x: u64) -> Self;
}
macro_rules! digit_impl {
    ($($t:ty),*) => {$(
        impl Digit for $t {
            const BYTES: usize = std::mem::size_of::<$t>();
            fn from_le(b: &[u8]) -> Self { <$t>::from_le_bytes(b.try_into().expect("digit bytes")) }
            fn push_le(self, out: &mut Vec<u8>) { out.extend_from_slice(&self.to_le_bytes()) }
            fn to_u64(self) -> u64 { self as u64 }
            fn from_u64(x: u64) -> Self { x as $t }
        }
    )*};
}
digit_impl!(u8, u16, u32, u64);

pub fn digits_from_bytes<D: Digit, const N: usize>(b: &[u8]) -> [D; N] {
    assert_eq!(b.len(), N * D::BYTES, "pattern length does not match the configuration");
    let mut out = [D::default(); N];
    for i in 0..N {
        out[i] = D::from_le(&b[i * D::BYTES..(i + 1) * D::BYTES]);
    }
    out
}
pub fn bytes_from_digits<D: Digit>(d: &[D]) -> Vec<u8> {
    let mut out = Vec::with_capacity(d.len() * D::BYTES);
    for &x in d {
        x.push_le(&mut out);
    }
    out
}
