//! Verification library: reference models, generators, runner. No dependency on bnum.
pub mod case;
pub mod float_model;
pub mod fmt_model;
pub mod gen;
pub mod parse_model;
pub mod refint;
pub mod runner;
pub mod script_rng;
pub mod shadow;

pub use case::{Bytes, CaseData, Pat};
pub use refint::Z;
pub use runner::{catch, outcome, Ctx, Job, Obs, Outcome, Property, Tier};
