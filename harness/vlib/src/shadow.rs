//! Shadow run of Knuth's Algorithm D on the reference side, used ONLY to classify generated
//! division cases (which rare branches a case would reach); never used as an oracle.

#[derive(Default, Debug, Clone)]
pub struct KnuthStats {
    pub reached: bool,
    pub steps: u32,
    pub qhat_max: u32,
    pub corr1: u32,
    pub corr2: u32,
    pub addback: u32,
    pub shift_zero: bool,
    pub quotient: Vec<u64>,
}

fn sig(v: &[u64]) -> usize {
    let mut n = v.len();
    while n > 0 && v[n - 1] == 0 {
        n -= 1;
    }
    n
}

/// digits of `db` bits each (db in {8,16,32,64}) from little-endian bytes
pub fn digits_of(bytes: &[u8], db: u32) -> Vec<u64> {
    let k = (db / 8) as usize;
    bytes
        .chunks(k)
        .map(|c| {
            let mut x = 0u64;
            for (i, &b) in c.iter().enumerate() {
                x |= (b as u64) << (8 * i);
            }
            x
        })
        .collect()
}

pub fn shadow_knuth(u: &[u64], v: &[u64], db: u32) -> KnuthStats {
    let mut st = KnuthStats::default();
    let n = sig(v);
    let lu = sig(u);
    if n < 2 || lu < n {
        return st;
    }
    // u < v ?
    if lu == n {
        let mut less = false;
        for i in (0..n).rev() {
            if u[i] != v[i] {
                less = u[i] < v[i];
                break;
            }
        }
        if less {
            return st;
        }
    }
    st.reached = true;
    let mask: u128 = if db == 64 { u64::MAX as u128 } else { (1u128 << db) - 1 };
    let b: u128 = mask + 1;
    let m = lu - n;
    let s = (v[n - 1].leading_zeros() - (64 - db)) as u32;
    st.shift_zero = s == 0;
    let shl = |x: &[u64], extra: bool| -> Vec<u64> {
        let mut out = Vec::with_capacity(x.len() + 1);
        let mut carry = 0u128;
        for &d in x {
            let t = ((d as u128) << s) | carry;
            out.push((t & mask) as u64);
            carry = t >> db;
        }
        if extra {
            out.push(carry as u64);
        }
        out
    };
    let vn = shl(&v[..n], false);
    let mut un = shl(&u[..lu], true);
    let mut q = vec![0u64; m + 1];
    for j in (0..=m).rev() {
        st.steps += 1;
        let ujn = un[j + n] as u128;
        let mut qhat: u128;
        if ujn >= vn[n - 1] as u128 {
            qhat = mask;
            st.qhat_max += 1;
        } else {
            let num = ujn * b + un[j + n - 1] as u128;
            qhat = num / vn[n - 1] as u128;
            let mut rhat = num % vn[n - 1] as u128;
            if qhat * vn[n - 2] as u128 > rhat * b + un[j + n - 2] as u128 {
                qhat -= 1;
                rhat += vn[n - 1] as u128;
                st.corr1 += 1;
                if rhat < b && qhat * vn[n - 2] as u128 > rhat * b + un[j + n - 2] as u128 {
                    qhat -= 1;
                    st.corr2 += 1;
                }
            }
        }
        // multiply and subtract
        let mut borrow: i128 = 0;
        let mut carry: u128 = 0;
        for i in 0..n {
            let p = qhat * vn[i] as u128 + carry;
            carry = p >> db;
            let t = un[i + j] as i128 - borrow - (p & mask) as i128;
            un[i + j] = (t & mask as i128) as u64;
            borrow = if t < 0 { 1 } else { 0 };
        }
        let t = un[j + n] as i128 - borrow - carry as i128;
        un[j + n] = (t & mask as i128) as u64;
        if t < 0 {
            st.addback += 1;
            qhat -= 1;
            let mut c: u128 = 0;
            for i in 0..n {
                let t = un[i + j] as u128 + vn[i] as u128 + c;
                un[i + j] = (t & mask) as u64;
                c = t >> db;
            }
            un[j + n] = ((un[j + n] as u128 + c) & mask) as u64;
        }
        q[j] = qhat as u64;
    }
    st.quotient = q;
    st
}

pub fn self_test() -> Result<u64, String> {
    use crate::refint::Z;
    // quotient of the shadow run agrees with Z on a few fixed cases, incl. the Hacker's Delight add-back cases
    let mut n = 0;
    for db in [8u32, 16, 32, 64] {
        let b1 = if db == 64 { u64::MAX } else { (1u64 << db) - 1 };
        let half = 1u64 << (db - 1);
        let cases: Vec<(Vec<u64>, Vec<u64>, bool)> = vec![
            (vec![3, 0, half], vec![1, 0, half >> 2], false),
            (vec![0, b1 - 1, half], vec![b1, half], false),
            (vec![b1, b1, b1, b1], vec![b1, 1], false),
            (vec![5, 4, 3, 2, 1], vec![9, 8, 7], false),
        ];
        // constructed add-back case: u = 3*v - 1 with v = [MAX, MAX, b/2]
        let v3 = vec![b1, b1, half];
        let zv = {
            let mut z = Z::zero();
            for &x in v3.iter().rev() {
                z = z.shl(db as u64).add(&Z::from_u64(x));
            }
            z
        };
        let zu = zv.mul_i(3).add_i(-1);
        let u3 = digits_of(&zu.to_le_wrapped((db as usize / 8) * 4), db);
        let mut cases = cases;
        cases.push((u3, v3, true));
        for (u, v, want_addback) in cases {
            let st = shadow_knuth(&u, &v, db);
            let to_z = |d: &[u64]| {
                let mut z = Z::zero();
                for &x in d.iter().rev() {
                    z = z.shl(db as u64).add(&Z::from_u64(x));
                }
                z
            };
            let (q, _) = to_z(&u).divrem_trunc(&to_z(&v));
            n += 1;
            if st.reached && to_z(&st.quotient) != q {
                return Err(format!("shadow knuth quotient mismatch db={db} u={u:?} v={v:?}"));
            }
            if want_addback && st.addback == 0 {
                return Err(format!("shadow knuth: expected add-back db={db}"));
            }
        }
    }
    Ok(n)
}
