//! `Z`: an independent arbitrary-precision reference integer (sign + magnitude, u32 limbs).
//!
//! Deliberately naive algorithms that share nothing with bnum: ripple add/sub, schoolbook multiply
//! through u64, division by binary shift-and-subtract, left-to-right exponentiation, bitwise
//! root extraction.  Everything the checks expect is computed here in unbounded arithmetic and
//! only then reduced / range-tested (`fits`, `wrap`, `clamp`).

use std::cmp::Ordering;
use std::fmt;

#[derive(Clone, PartialEq, Eq, Hash)]
pub struct Z {
    neg: bool,
    mag: Vec<u32>, // little endian, no most-significant zero limbs; zero <=> empty, neg = false
}

// ------------------------------------------------------------------------------------------------
// magnitude helpers (little-endian u32 limbs, normalised)
// ------------------------------------------------------------------------------------------------

fn trim(v: &mut Vec<u32>) {
    while let Some(&0) = v.last() {
        v.pop();
    }
}

fn mag_cmp(a: &[u32], b: &[u32]) -> Ordering {
    if a.len() != b.len() {
        return a.len().cmp(&b.len());
    }
    for i in (0..a.len()).rev() {
        if a[i] != b[i] {
            return a[i].cmp(&b[i]);
        }
    }
    Ordering::Equal
}

fn mag_add(a: &[u32], b: &[u32]) -> Vec<u32> {
    let (a, b) = if a.len() >= b.len() { (a, b) } else { (b, a) };
    let mut out = Vec::with_capacity(a.len() + 1);
    let mut carry = 0u64;
    for i in 0..a.len() {
        let s = a[i] as u64 + if i < b.len() { b[i] as u64 } else { 0 } + carry;
        out.push(s as u32);
        carry = s >> 32;
    }
    if carry != 0 {
        out.push(carry as u32);
    }
    out
}

/// a - b, requires a >= b
fn mag_sub(a: &[u32], b: &[u32]) -> Vec<u32> {
    debug_assert!(mag_cmp(a, b) != Ordering::Less);
    let mut out = Vec::with_capacity(a.len());
    let mut borrow = 0i64;
    for i in 0..a.len() {
        let mut d = a[i] as i64 - borrow - if i < b.len() { b[i] as i64 } else { 0 };
        if d < 0 {
            d += 1i64 << 32;
            borrow = 1;
        } else {
            borrow = 0;
        }
        out.push(d as u32);
    }
    assert!(borrow == 0, "mag_sub underflow");
    trim(&mut out);
    out
}

fn mag_mul(a: &[u32], b: &[u32]) -> Vec<u32> {
    if a.is_empty() || b.is_empty() {
        return Vec::new();
    }
    let mut out = vec![0u32; a.len() + b.len()];
    for i in 0..a.len() {
        let mut carry = 0u64;
        let ai = a[i] as u64;
        if ai == 0 {
            continue;
        }
        for j in 0..b.len() {
            let t = ai * (b[j] as u64) + out[i + j] as u64 + carry;
            out[i + j] = t as u32;
            carry = t >> 32;
        }
        let mut k = i + b.len();
        while carry != 0 {
            let t = out[k] as u64 + carry;
            out[k] = t as u32;
            carry = t >> 32;
            k += 1;
        }
    }
    trim(&mut out);
    out
}

fn mag_bits(a: &[u32]) -> u64 {
    match a.last() {
        None => 0,
        Some(&top) => (a.len() as u64 - 1) * 32 + (32 - top.leading_zeros() as u64),
    }
}

fn mag_bit(a: &[u32], i: u64) -> bool {
    let limb = (i / 32) as usize;
    limb < a.len() && (a[limb] >> (i % 32)) & 1 == 1
}

fn mag_shl(a: &[u32], k: u64) -> Vec<u32> {
    if a.is_empty() {
        return Vec::new();
    }
    let limbs = (k / 32) as usize;
    let bits = (k % 32) as u32;
    let mut out = vec![0u32; limbs];
    if bits == 0 {
        out.extend_from_slice(a);
    } else {
        let mut carry = 0u32;
        for &x in a {
            out.push((x << bits) | carry);
            carry = x >> (32 - bits);
        }
        if carry != 0 {
            out.push(carry);
        }
    }
    out
}

/// floor(a / 2^k)
fn mag_shr(a: &[u32], k: u64) -> Vec<u32> {
    let limbs = (k / 32) as usize;
    let bits = (k % 32) as u32;
    if limbs >= a.len() {
        return Vec::new();
    }
    let mut out = Vec::with_capacity(a.len() - limbs);
    for i in limbs..a.len() {
        let lo = a[i] >> bits;
        let hi = if bits != 0 && i + 1 < a.len() { a[i + 1] << (32 - bits) } else { 0 };
        out.push(lo | hi);
    }
    trim(&mut out);
    out
}

/// Binary shift-and-subtract division of magnitudes. d must be non-zero.
fn mag_divrem(n: &[u32], d: &[u32]) -> (Vec<u32>, Vec<u32>) {
    assert!(!d.is_empty(), "reference division by zero");
    if mag_cmp(n, d) == Ordering::Less {
        return (Vec::new(), n.to_vec());
    }
    let nb = mag_bits(n);
    let dl = d.len();
    // remainder register: dl + 1 limbs, always < 2*d
    let mut r = vec![0u32; dl + 1];
    let mut q = vec![0u32; n.len()];
    let mut i = nb;
    while i > 0 {
        i -= 1;
        // r = (r << 1) | bit i of n
        let mut carry = mag_bit(n, i) as u32;
        for x in r.iter_mut() {
            let nc = *x >> 31;
            *x = (*x << 1) | carry;
            carry = nc;
        }
        // compare r >= d
        let ge = if r[dl] != 0 {
            true
        } else {
            let mut res = true;
            for k in (0..dl).rev() {
                if r[k] != d[k] {
                    res = r[k] > d[k];
                    break;
                }
            }
            res
        };
        if ge {
            let mut borrow = 0i64;
            for k in 0..=dl {
                let mut t = r[k] as i64 - borrow - if k < dl { d[k] as i64 } else { 0 };
                if t < 0 {
                    t += 1i64 << 32;
                    borrow = 1;
                } else {
                    borrow = 0;
                }
                r[k] = t as u32;
            }
            q[(i / 32) as usize] |= 1 << (i % 32);
        }
    }
    trim(&mut q);
    trim(&mut r);
    (q, r)
}

/// divide magnitude by a small value, in place; returns remainder
fn mag_divrem_small(a: &mut Vec<u32>, d: u32) -> u32 {
    let mut rem = 0u64;
    for x in a.iter_mut().rev() {
        let cur = (rem << 32) | *x as u64;
        *x = (cur / d as u64) as u32;
        rem = cur % d as u64;
    }
    trim(a);
    rem as u32
}

fn mag_muladd_small(a: &mut Vec<u32>, m: u32, add: u32) {
    let mut carry = add as u64;
    for x in a.iter_mut() {
        let t = *x as u64 * m as u64 + carry;
        *x = t as u32;
        carry = t >> 32;
    }
    if carry != 0 {
        a.push(carry as u32);
    }
}

// ------------------------------------------------------------------------------------------------

impl Z {
    fn norm(neg: bool, mut mag: Vec<u32>) -> Z {
        trim(&mut mag);
        let neg = neg && !mag.is_empty();
        Z { neg, mag }
    }

    pub fn zero() -> Z {
        Z { neg: false, mag: Vec::new() }
    }
    pub fn one() -> Z {
        Z::from_u64(1)
    }
    pub fn from_u64(x: u64) -> Z {
        Z::norm(false, vec![x as u32, (x >> 32) as u32])
    }
    pub fn from_i64(x: i64) -> Z {
        Z::from_i128(x as i128)
    }
    pub fn from_u128(x: u128) -> Z {
        Z::norm(false, vec![x as u32, (x >> 32) as u32, (x >> 64) as u32, (x >> 96) as u32])
    }
    pub fn from_i128(x: i128) -> Z {
        let m = x.unsigned_abs();
        let mut z = Z::from_u128(m);
        z.neg = x < 0;
        z
    }
    /// 2^k
    pub fn pow2(k: u64) -> Z {
        Z::one().shl(k)
    }

    /// little-endian bytes read as an unsigned number
    pub fn from_le_unsigned(bytes: &[u8]) -> Z {
        let mut mag = Vec::with_capacity(bytes.len() / 4 + 1);
        for chunk in bytes.chunks(4) {
            let mut w = 0u32;
            for (i, &b) in chunk.iter().enumerate() {
                w |= (b as u32) << (8 * i);
            }
            mag.push(w);
        }
        Z::norm(false, mag)
    }
    /// little-endian bytes read as two's complement (sign = top bit of the last byte); empty = 0
    pub fn from_le_signed(bytes: &[u8]) -> Z {
        match bytes.last() {
            Some(&b) if b & 0x80 != 0 => {
                let u = Z::from_le_unsigned(bytes);
                u.sub(&Z::pow2(8 * bytes.len() as u64))
            }
            _ => Z::from_le_unsigned(bytes),
        }
    }
    pub fn from_le(bytes: &[u8], signed: bool) -> Z {
        if signed {
            Z::from_le_signed(bytes)
        } else {
            Z::from_le_unsigned(bytes)
        }
    }
    /// big-endian variants
    pub fn from_be(bytes: &[u8], signed: bool) -> Z {
        let mut v = bytes.to_vec();
        v.reverse();
        Z::from_le(&v, signed)
    }

    /// two's-complement little-endian bytes of self mod 2^(8*nbytes)
    pub fn to_le_wrapped(&self, nbytes: usize) -> Vec<u8> {
        let mut out = vec![0u8; nbytes];
        for i in 0..nbytes {
            let limb = i / 4;
            if limb < self.mag.len() {
                out[i] = (self.mag[limb] >> (8 * (i % 4))) as u8;
            }
        }
        if self.neg {
            // negate modulo 2^(8 nbytes): invert and add one
            let mut carry = 1u16;
            for b in out.iter_mut() {
                let t = (!*b) as u16 + carry;
                *b = t as u8;
                carry = t >> 8;
            }
        }
        out
    }

    pub fn is_zero(&self) -> bool {
        self.mag.is_empty()
    }
    pub fn is_neg(&self) -> bool {
        self.neg
    }
    pub fn is_pos(&self) -> bool {
        !self.neg && !self.mag.is_empty()
    }
    pub fn signum(&self) -> i32 {
        if self.neg {
            -1
        } else if self.mag.is_empty() {
            0
        } else {
            1
        }
    }
    pub fn is_odd(&self) -> bool {
        self.mag.first().map_or(false, |x| x & 1 == 1)
    }
    /// bit length of the magnitude
    pub fn bit_len(&self) -> u64 {
        mag_bits(&self.mag)
    }
    /// bit i of the magnitude
    pub fn mag_bit(&self, i: u64) -> bool {
        mag_bit(&self.mag, i)
    }
    /// number of trailing zero bits of the magnitude (None for zero)
    pub fn trailing_zeros(&self) -> Option<u64> {
        for (i, &x) in self.mag.iter().enumerate() {
            if x != 0 {
                return Some(i as u64 * 32 + x.trailing_zeros() as u64);
            }
        }
        None
    }

    pub fn neg(&self) -> Z {
        Z::norm(!self.neg, self.mag.clone())
    }
    pub fn abs(&self) -> Z {
        Z::norm(false, self.mag.clone())
    }
    pub fn add(&self, o: &Z) -> Z {
        if self.neg == o.neg {
            Z::norm(self.neg, mag_add(&self.mag, &o.mag))
        } else {
            match mag_cmp(&self.mag, &o.mag) {
                Ordering::Equal => Z::zero(),
                Ordering::Greater => Z::norm(self.neg, mag_sub(&self.mag, &o.mag)),
                Ordering::Less => Z::norm(o.neg, mag_sub(&o.mag, &self.mag)),
            }
        }
    }
    pub fn sub(&self, o: &Z) -> Z {
        self.add(&o.neg())
    }
    pub fn mul(&self, o: &Z) -> Z {
        Z::norm(self.neg != o.neg, mag_mul(&self.mag, &o.mag))
    }
    pub fn add_i(&self, x: i64) -> Z {
        self.add(&Z::from_i64(x))
    }
    pub fn mul_i(&self, x: i64) -> Z {
        self.mul(&Z::from_i64(x))
    }
    /// self * 2^k
    pub fn shl(&self, k: u64) -> Z {
        Z::norm(self.neg, mag_shl(&self.mag, k))
    }
    /// floor(self / 2^k)
    pub fn shr_floor(&self, k: u64) -> Z {
        if !self.neg {
            Z::norm(false, mag_shr(&self.mag, k))
        } else {
            // floor(-m / 2^k) = -ceil(m / 2^k)
            let q = mag_shr(&self.mag, k);
            let exact = self.trailing_zeros().map_or(true, |tz| tz >= k);
            let z = Z::norm(false, q);
            if exact {
                z.neg()
            } else {
                z.add_i(1).neg()
            }
        }
    }

    /// truncated division: self = q*d + r, |r| < |d|, r has the sign of self (or is zero)
    pub fn divrem_trunc(&self, d: &Z) -> (Z, Z) {
        let (q, r) = mag_divrem(&self.mag, &d.mag);
        (Z::norm(self.neg != d.neg, q), Z::norm(self.neg, r))
    }
    /// floor division: r has the sign of d (or is zero)
    pub fn divrem_floor(&self, d: &Z) -> (Z, Z) {
        let (q, r) = self.divrem_trunc(d);
        if !r.is_zero() && (r.neg != d.neg) {
            (q.add_i(-1), r.add(d))
        } else {
            (q, r)
        }
    }
    /// ceiling division: q = ceil(self / d)
    pub fn divrem_ceil(&self, d: &Z) -> (Z, Z) {
        let (q, r) = self.divrem_trunc(d);
        if !r.is_zero() && (r.neg == d.neg) {
            (q.add_i(1), r.sub(d))
        } else {
            (q, r)
        }
    }
    /// Euclidean division: 0 <= r < |d|
    pub fn divrem_euclid(&self, d: &Z) -> (Z, Z) {
        let (q, r) = self.divrem_trunc(d);
        if r.neg {
            if d.neg {
                (q.add_i(1), r.sub(d))
            } else {
                (q.add_i(-1), r.add(d))
            }
        } else {
            (q, r)
        }
    }

    /// self^e, or None as soon as the magnitude needs more than `cap_bits` bits.
    /// Left-to-right binary method.
    pub fn pow_capped(&self, e: u32, cap_bits: u64) -> Option<Z> {
        if e == 0 {
            return Some(Z::one());
        }
        if self.is_zero() {
            return Some(Z::zero());
        }
        if self.mag.len() == 1 && self.mag[0] == 1 {
            return Some(if self.neg && e % 2 == 1 { Z::from_i64(-1) } else { Z::one() });
        }
        // |self| >= 2, so |self|^e >= 2^e
        if e as u64 > cap_bits {
            return None;
        }
        let mut acc = Z::one();
        let top = 31 - e.leading_zeros();
        for i in (0..=top).rev() {
            acc = acc.mul(&acc);
            if acc.bit_len() > cap_bits {
                return None;
            }
            if (e >> i) & 1 == 1 {
                acc = acc.mul(self);
                if acc.bit_len() > cap_bits {
                    return None;
                }
            }
        }
        Some(acc)
    }

    /// self^e mod 2^k as a non-negative residue (left-to-right, reducing after every step)
    pub fn pow_mod_2k(&self, e: u32, k: u64) -> Z {
        let base = self.mod_2k(k);
        let mut acc = Z::one().mod_2k(k);
        if e == 0 {
            return acc;
        }
        let top = 31 - e.leading_zeros();
        for i in (0..=top).rev() {
            acc = acc.mul(&acc).mod_2k(k);
            if (e >> i) & 1 == 1 {
                acc = acc.mul(&base).mod_2k(k);
            }
        }
        acc
    }

    /// non-negative residue of self modulo 2^k
    pub fn mod_2k(&self, k: u64) -> Z {
        let mut m = self.mag.clone();
        let limbs = ((k + 31) / 32) as usize;
        if m.len() > limbs {
            m.truncate(limbs);
        }
        if k % 32 != 0 && m.len() == limbs {
            let keep = (k % 32) as u32;
            m[limbs - 1] &= (1u32 << keep) - 1;
        }
        let r = Z::norm(false, m);
        if self.neg && !r.is_zero() {
            Z::pow2(k).sub(&r)
        } else {
            r
        }
    }

    pub fn min_of(bits: u64, signed: bool) -> Z {
        if signed {
            Z::pow2(bits - 1).neg()
        } else {
            Z::zero()
        }
    }
    pub fn max_of(bits: u64, signed: bool) -> Z {
        if signed {
            Z::pow2(bits - 1).add_i(-1)
        } else {
            Z::pow2(bits).add_i(-1)
        }
    }
    /// is self representable in a `bits`-wide (signed / unsigned) two's-complement type?
    pub fn fits(&self, bits: u64, signed: bool) -> bool {
        if signed {
            if self.neg {
                // -2^(bits-1) <= self  <=>  mag <= 2^(bits-1)
                let bl = self.bit_len();
                bl < bits || (bl == bits && self.trailing_zeros() == Some(bits - 1))
            } else {
                self.bit_len() < bits
            }
        } else {
            !self.neg && self.bit_len() <= bits
        }
    }
    /// self reduced modulo 2^bits into the type's range
    pub fn wrap(&self, bits: u64, signed: bool) -> Z {
        let r = self.mod_2k(bits);
        if signed && r.bit_len() == bits {
            r.sub(&Z::pow2(bits))
        } else {
            r
        }
    }
    pub fn clamp_to(&self, bits: u64, signed: bool) -> Z {
        let lo = Z::min_of(bits, signed);
        let hi = Z::max_of(bits, signed);
        if *self < lo {
            lo
        } else if *self > hi {
            hi
        } else {
            self.clone()
        }
    }

    /// floor(|self|^(1/n)) with the sign of self; n >= 1. Bitwise construction from the top,
    /// comparing candidate^n against |self| (power capped at the bit length of self).
    pub fn nth_root(&self, n: u32) -> Z {
        assert!(n >= 1);
        let x = self.abs();
        if x.is_zero() {
            return Z::zero();
        }
        let bl = x.bit_len();
        // root < 2^(ceil(bl / n))
        let top = (bl + n as u64 - 1) / n as u64;
        let mut r = Z::zero();
        let mut i = top + 1;
        while i > 0 {
            i -= 1;
            let cand = r.add(&Z::pow2(i));
            match cand.pow_capped(n, bl) {
                Some(p) if p <= x => r = cand,
                _ => {}
            }
        }
        if self.neg {
            r.neg()
        } else {
            r
        }
    }

    pub fn gcd(&self, o: &Z) -> Z {
        let mut a = self.abs();
        let mut b = o.abs();
        while !b.is_zero() {
            let (_, r) = a.divrem_trunc(&b);
            a = b;
            b = r;
        }
        a
    }

    /// digits of the magnitude in `radix` (2..=256), most significant first; zero -> [0]
    pub fn to_radix_be(&self, radix: u32) -> Vec<u8> {
        assert!((2..=256).contains(&radix));
        let mut m = self.mag.clone();
        if m.is_empty() {
            return vec![0];
        }
        let mut out = Vec::new();
        while !m.is_empty() {
            out.push(mag_divrem_small(&mut m, radix) as u8);
        }
        out.reverse();
        out
    }
    /// value of a digit sequence (most significant first); digits are not range-checked
    pub fn from_radix_be(digits: &[u8], radix: u32) -> Z {
        let mut m: Vec<u32> = Vec::new();
        for &d in digits {
            mag_muladd_small(&mut m, radix, d as u32);
        }
        Z::norm(false, m)
    }
    /// canonical numeral: lowercase, '-' prefix for negatives, "0" for zero; radix 2..=36
    pub fn to_str_radix(&self, radix: u32) -> String {
        assert!((2..=36).contains(&radix));
        let mut s = String::new();
        if self.neg {
            s.push('-');
        }
        for d in self.to_radix_be(radix) {
            s.push(std::char::from_digit(d as u32, radix).unwrap());
        }
        s
    }
    pub fn to_u128(&self) -> Option<u128> {
        if self.neg || self.mag.len() > 4 {
            return None;
        }
        let mut v = 0u128;
        for (i, &x) in self.mag.iter().enumerate() {
            v |= (x as u128) << (32 * i);
        }
        Some(v)
    }
    pub fn to_i128(&self) -> Option<i128> {
        if !self.fits(128, true) {
            return None;
        }
        let b = self.to_le_wrapped(16);
        Some(i128::from_le_bytes(b.try_into().unwrap()))
    }
    pub fn to_u64(&self) -> Option<u64> {
        self.to_u128().and_then(|x| u64::try_from(x).ok())
    }
    pub fn limbs(&self) -> &[u32] {
        &self.mag
    }
}

impl PartialOrd for Z {
    fn partial_cmp(&self, o: &Z) -> Option<Ordering> {
        Some(self.cmp(o))
    }
}
impl Ord for Z {
    fn cmp(&self, o: &Z) -> Ordering {
        match (self.neg, o.neg) {
            (false, true) => Ordering::Greater,
            (true, false) => Ordering::Less,
            (false, false) => mag_cmp(&self.mag, &o.mag),
            (true, true) => mag_cmp(&o.mag, &self.mag),
        }
    }
}

impl fmt::Debug for Z {
    fn fmt(&self, f: &mut fmt::Formatter<'_>) -> fmt::Result {
        if self.neg {
            write!(f, "-")?;
        }
        write!(f, "0x")?;
        if self.mag.is_empty() {
            return write!(f, "0");
        }
        for (i, x) in self.mag.iter().rev().enumerate() {
            if i == 0 {
                write!(f, "{:x}", x)?;
            } else {
                write!(f, "{:08x}", x)?;
            }
        }
        Ok(())
    }
}
impl fmt::Display for Z {
    fn fmt(&self, f: &mut fmt::Formatter<'_>) -> fmt::Result {
        fmt::Debug::fmt(self, f)
    }
}

// ------------------------------------------------------------------------------------------------
// self-test: Z against native 128-bit arithmetic and algebraic identities at large sizes.
// A failure here means the harness is broken (exit 2), never a violation.
// ------------------------------------------------------------------------------------------------

struct Lcg(u64);
impl Lcg {
    fn next(&mut self) -> u64 {
        // splitmix64
        self.0 = self.0.wrapping_add(0x9E3779B97F4A7C15);
        let mut z = self.0;
        z = (z ^ (z >> 30)).wrapping_mul(0xBF58476D1CE4E5B9);
        z = (z ^ (z >> 27)).wrapping_mul(0x94D049BB133111EB);
        z ^ (z >> 31)
    }
    fn i64ish(&mut self) -> i128 {
        let k = self.next() % 6;
        let v = self.next();
        match k {
            0 => (v % 5) as i128 - 2,
            1 => v as i64 as i128,
            2 => (v as i32) as i128,
            3 => [i64::MIN as i128, i64::MAX as i128, u64::MAX as i128, -1, 1 << 32, (1 << 32) - 1][(v % 6) as usize],
            4 => (v as i64 as i128) >> (self.next() % 60),
            _ => ((v as u64) as i128) - (1i128 << 63),
        }
    }
    fn big(&mut self, limbs: usize) -> Z {
        let mut m = Vec::new();
        for _ in 0..limbs {
            let k = self.next() % 4;
            m.push(match k {
                0 => 0,
                1 => u32::MAX,
                _ => self.next() as u32,
            });
        }
        Z::norm(self.next() % 2 == 0, m)
    }
}

pub fn self_test() -> Result<u64, String> {
    let mut n = 0u64;
    let mut rng = Lcg(0x1234_5678_9abc_def0);
    macro_rules! ck {
        ($c:expr, $($m:tt)*) => { n += 1; if !($c) { return Err(format!($($m)*)); } };
    }
    for _ in 0..4000 {
        let a = rng.i64ish();
        let b = rng.i64ish();
        let za = Z::from_i128(a);
        let zb = Z::from_i128(b);
        ck!(za.add(&zb) == Z::from_i128(a + b), "add {a} {b}");
        ck!(za.sub(&zb) == Z::from_i128(a - b), "sub {a} {b}");
        ck!(za.mul(&zb).to_i128() == a.checked_mul(b), "mul {a} {b}");
        ck!(za.cmp(&zb) == a.cmp(&b), "cmp {a} {b}");
        if b != 0 {
            let (q, r) = za.divrem_trunc(&zb);
            ck!(q == Z::from_i128(a / b) && r == Z::from_i128(a % b), "divrem_trunc {a} {b}");
            let (q, r) = za.divrem_euclid(&zb);
            ck!(q == Z::from_i128(a.div_euclid(b)) && r == Z::from_i128(a.rem_euclid(b)), "divrem_euclid {a} {b}");
            let (q, r) = za.divrem_floor(&zb);
            let fq = (a as f64 / b as f64).floor();
            let _ = fq;
            let eq = if (a % b != 0) && ((a < 0) != (b < 0)) { a / b - 1 } else { a / b };
            ck!(q == Z::from_i128(eq) && r == Z::from_i128(a - eq * b), "divrem_floor {a} {b}");
            let (q, r) = za.divrem_ceil(&zb);
            let eq = if (a % b != 0) && ((a < 0) == (b < 0)) { a / b + 1 } else { a / b };
            ck!(q == Z::from_i128(eq) && r == Z::from_i128(a - eq * b), "divrem_ceil {a} {b}");
        }
        for bits in [8u64, 16, 24, 64, 72, 128] {
            let w = za.wrap(bits, true);
            let expect = if bits == 128 { a } else { (a << (128 - bits)) >> (128 - bits) };
            ck!(w == Z::from_i128(expect), "wrap signed {a} {bits}");
            ck!(za.fits(bits, true) == (expect == a), "fits signed {a} {bits}");
            if bits < 128 {
                let uw = za.wrap(bits, false);
                let ue = a & ((1i128 << bits) - 1);
                ck!(uw == Z::from_i128(ue), "wrap unsigned {a} {bits}");
                ck!(za.fits(bits, false) == (ue == a), "fits unsigned {a} {bits}");
            }
            let by = za.to_le_wrapped((bits / 8) as usize);
            ck!(Z::from_le_signed(&by) == w, "to_le/from_le {a} {bits}");
        }
        let k = (rng.next() % 70) as u64;
        ck!(za.shr_floor(k) == Z::from_i128(if k >= 127 { if a < 0 { -1 } else { 0 } } else { a >> k }), "shr {a} {k}");
        if k < 60 {
            ck!(za.shl(k) == Z::from_i128(a << k), "shl {a} {k}");
        }
        let e = (rng.next() % 9) as u32;
        let small = (a % 1000) as i128;
        ck!(Z::from_i128(small).pow_capped(e, 200).and_then(|z| z.to_i128()) == small.checked_pow(e), "pow {small} {e}");
        ck!(Z::from_i128(small).pow_mod_2k(e, 64).to_u128() == Some((small as u64).wrapping_pow(e) as u128), "pow_mod {small} {e}");
        let ua = a.unsigned_abs();
        ck!(Z::from_u128(ua).nth_root(2).to_u128() == Some(isqrt(ua)), "sqrt {ua}");
        for radix in [2u32, 3, 10, 16, 36] {
            let s = za.to_str_radix(radix);
            ck!(i128::from_str_radix(&s, radix) == Ok(a), "to_str_radix {a} {radix} {s}");
        }
        ck!(za.gcd(&zb).to_u128() == Some(gcd128(a.unsigned_abs(), b.unsigned_abs())), "gcd {a} {b}");
    }
    // identities at large sizes
    for it in 0..300 {
        let la = 1 + (rng.next() % 40) as usize;
        let lb = 1 + (rng.next() % 40) as usize;
        let a = rng.big(la);
        let mut b = rng.big(lb);
        if b.is_zero() {
            b = Z::one();
        }
        let p = a.mul(&b);
        let (q, r) = p.divrem_trunc(&b);
        ck!(q == a && r.is_zero(), "(a*b)/b it={it}");
        let (q, r) = a.divrem_trunc(&b);
        ck!(q.mul(&b).add(&r) == a && r.abs() < b.abs() && (r.is_zero() || r.is_neg() == a.is_neg()), "q*d+r it={it}");
        let (q, r) = a.divrem_euclid(&b);
        ck!(q.mul(&b).add(&r) == a && !r.is_neg() && r < b.abs(), "euclid it={it}");
        let (q, r) = a.divrem_floor(&b);
        ck!(q.mul(&b).add(&r) == a && r.abs() < b.abs() && (r.is_zero() || r.is_neg() == b.is_neg()), "floor it={it}");
        let c = rng.big(la);
        ck!(a.add(&c).sub(&c) == a, "add/sub it={it}");
        ck!(a.mul(&b.add(&c)) == a.mul(&b).add(&a.mul(&c)), "distrib it={it}");
        let k = rng.next() % 300;
        ck!(a.shl(k).shr_floor(k) == a, "shl/shr it={it}");
        ck!(a.shr_floor(k) == a.divrem_floor(&Z::pow2(k)).0, "shr=floor div it={it}");
        let radix = 2 + (rng.next() % 255) as u32;
        ck!(Z::from_radix_be(&a.abs().to_radix_be(radix), radix) == a.abs(), "radix rt it={it}");
        let n = 1 + (rng.next() % 9) as u32;
        if it < 60 {
            let x = a.abs();
            let rt = x.nth_root(n);
            let cap = x.bit_len() + 64;
            let lo = rt.pow_capped(n, cap).unwrap();
            let hi = rt.add_i(1).pow_capped(n, cap + 64 * n as u64).unwrap();
            ck!(lo <= x && x < hi, "root it={it}");
        }
        let bits = 8 * (1 + rng.next() % 64);
        let w = a.wrap(bits, true);
        ck!(w.fits(bits, true) && a.sub(&w).mod_2k(bits).is_zero(), "wrap big it={it}");
        let w = a.wrap(bits, false);
        ck!(w.fits(bits, false) && a.sub(&w).mod_2k(bits).is_zero(), "wrapu big it={it}");
        ck!(Z::from_le_signed(&a.to_le_wrapped((bits / 8) as usize)) == a.wrap(bits, true), "bytes big it={it}");
    }
    // range helpers
    for bits in [8u64, 24, 64, 136] {
        for signed in [false, true] {
            let lo = Z::min_of(bits, signed);
            let hi = Z::max_of(bits, signed);
            ck!(lo.fits(bits, signed) && hi.fits(bits, signed), "bounds fit");
            ck!(!lo.add_i(-1).fits(bits, signed) && !hi.add_i(1).fits(bits, signed), "bounds+-1 do not fit");
            ck!(hi.add_i(1).wrap(bits, signed) == lo && lo.add_i(-1).wrap(bits, signed) == hi, "wrap around");
            ck!(hi.add_i(5).clamp_to(bits, signed) == hi && lo.add_i(-5).clamp_to(bits, signed) == lo, "clamp");
        }
    }
    // committed vectors produced with python3 ints (tools/gen_refint_vectors.py)
    n += vectors_test()?;
    Ok(n)
}

fn isqrt(x: u128) -> u128 {
    if x == 0 {
        return 0;
    }
    let mut r = (x as f64).sqrt() as u128;
    while r.checked_mul(r).map_or(true, |p| p > x) {
        r -= 1;
    }
    while (r + 1).checked_mul(r + 1).map_or(false, |p| p <= x) {
        r += 1;
    }
    r
}
fn gcd128(mut a: u128, mut b: u128) -> u128 {
    while b != 0 {
        let t = a % b;
        a = b;
        b = t;
    }
    a
}

fn parse_dec(s: &str) -> Z {
    let (neg, body) = match s.strip_prefix('-') {
        Some(b) => (true, b),
        None => (false, s),
    };
    let digits: Vec<u8> = body.bytes().map(|b| b - b'0').collect();
    let z = Z::from_radix_be(&digits, 10);
    if neg {
        z.neg()
    } else {
        z
    }
}

fn vectors_test() -> Result<u64, String> {
    let text = include_str!("refint_vectors.txt");
    let mut n = 0;
    for (ln, line) in text.lines().enumerate() {
        if line.is_empty() || line.starts_with('#') {
            continue;
        }
        let f: Vec<&str> = line.split_whitespace().collect();
        let bad = |what: &str| Err(format!("refint vector line {} ({}) failed: {}", ln + 1, f[0], what));
        n += 1;
        match f[0] {
            "divs" => {
                // a b qt rt qf rf qe re qc
                let a = parse_dec(f[1]);
                let b = parse_dec(f[2]);
                let (q, r) = a.divrem_trunc(&b);
                if q != parse_dec(f[3]) || r != parse_dec(f[4]) {
                    return bad("trunc");
                }
                let (q, r) = a.divrem_floor(&b);
                if q != parse_dec(f[5]) || r != parse_dec(f[6]) {
                    return bad("floor");
                }
                let (q, r) = a.divrem_euclid(&b);
                if q != parse_dec(f[7]) || r != parse_dec(f[8]) {
                    return bad("euclid");
                }
                let (q, _) = a.divrem_ceil(&b);
                if q != parse_dec(f[9]) {
                    return bad("ceil");
                }
            }
            "arith" => {
                // a b a+b a-b a*b gcd
                let a = parse_dec(f[1]);
                let b = parse_dec(f[2]);
                if a.add(&b) != parse_dec(f[3]) || a.sub(&b) != parse_dec(f[4]) || a.mul(&b) != parse_dec(f[5]) {
                    return bad("arith");
                }
                if a.gcd(&b) != parse_dec(f[6]) {
                    return bad("gcd");
                }
            }
            "pow" => {
                // a e result
                let a = parse_dec(f[1]);
                let e: u32 = f[2].parse().unwrap();
                if a.pow_capped(e, 1 << 20) != Some(parse_dec(f[3])) {
                    return bad("pow");
                }
            }
            "powmod" => {
                let a = parse_dec(f[1]);
                let e: u32 = f[2].parse().unwrap();
                let k: u64 = f[3].parse().unwrap();
                if a.pow_mod_2k(e, k) != parse_dec(f[4]) {
                    return bad("powmod");
                }
            }
            "root" => {
                let a = parse_dec(f[1]);
                let n_: u32 = f[2].parse().unwrap();
                if a.nth_root(n_) != parse_dec(f[3]) {
                    return bad("root");
                }
            }
            "shift" => {
                // a k a<<k a>>k
                let a = parse_dec(f[1]);
                let k: u64 = f[2].parse().unwrap();
                if a.shl(k) != parse_dec(f[3]) || a.shr_floor(k) != parse_dec(f[4]) {
                    return bad("shift");
                }
            }
            "wrap" => {
                // a bits signed-wrap unsigned-wrap hex-of-unsigned-wrap
                let a = parse_dec(f[1]);
                let bits: u64 = f[2].parse().unwrap();
                if a.wrap(bits, true) != parse_dec(f[3]) || a.wrap(bits, false) != parse_dec(f[4]) {
                    return bad("wrap");
                }
                if a.wrap(bits, false).to_str_radix(16) != f[5] {
                    return bad("hex");
                }
            }
            other => return Err(format!("unknown vector kind {other}")),
        }
    }
    if n < 100 {
        return Err("refint vector file too short".into());
    }
    Ok(n)
}
