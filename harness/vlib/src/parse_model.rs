//! Reference model of the integer grammar of property C10 and the SET of acceptable outcomes.

use crate::refint::Z;

#[derive(Clone, Copy, Debug, PartialEq, Eq)]
pub enum Kind {
    Empty,
    InvalidDigit,
    PosOverflow,
    NegOverflow,
    Zero,
    Other,
}

#[derive(Clone, Debug, PartialEq, Eq)]
pub enum Expect {
    /// exactly this value
    Ok(Z),
    /// exactly this error kind
    Err(Kind),
    /// any error (never accepted), the kind is not fixed by the property
    AnyErr,
}

pub fn digit_value(b: u8) -> Option<u32> {
    match b {
        b'0'..=b'9' => Some((b - b'0') as u32),
        b'a'..=b'z' => Some((b - b'a') as u32 + 10),
        b'A'..=b'Z' => Some((b - b'A') as u32 + 10),
        _ => None,
    }
}

/// what the property allows for `from_str_radix(s, radix)` on a type of `bits` bits
pub fn parse_expect(s: &[u8], radix: u32, bits: u64, signed: bool) -> Expect {
    assert!((2..=36).contains(&radix));
    if s.is_empty() {
        return Expect::Err(Kind::Empty);
    }
    let (neg, body) = match s[0] {
        b'+' => (false, &s[1..]),
        b'-' if signed => (true, &s[1..]),
        _ => (false, s),
    };
    if body.is_empty() {
        // lone sign
        return Expect::Err(Kind::InvalidDigit);
    }
    let mut digits = Vec::with_capacity(body.len());
    let mut valid = true;
    for &b in body {
        match digit_value(b) {
            Some(d) if d < radix => digits.push(d as u8),
            _ => {
                valid = false;
                break;
            }
        }
    }
    if valid {
        let mag = Z::from_radix_be(&digits, radix);
        let v = if neg { mag.neg() } else { mag };
        if v.fits(bits, signed) {
            Expect::Ok(v)
        } else if neg {
            Expect::Err(Kind::NegOverflow)
        } else {
            Expect::Err(Kind::PosOverflow)
        }
    } else {
        // contains a character that is not a digit of the radix: never accepted; InvalidDigit
        // whenever the body is too short for its digits to overflow: radix^L <= 2^(bits-1)
        // (conservative threshold: no L-digit numeral can overflow even the signed type)
        let l = body.len() as u32;
        let short = Z::from_u64(radix as u64).pow_capped(l, bits).map_or(false, |p| p <= Z::pow2(bits - 1));
        if short {
            Expect::Err(Kind::InvalidDigit)
        } else {
            Expect::AnyErr
        }
    }
}

/// what the property requires of from_radix_be / from_radix_le: Some(v) iff all digits < radix and v < 2^bits
pub fn digits_expect(digits_msd_first: &[u8], radix: u32, bits: u64) -> Option<Z> {
    assert!((2..=256).contains(&radix));
    if digits_msd_first.iter().any(|&d| d as u32 >= radix) {
        return None;
    }
    let v = Z::from_radix_be(digits_msd_first, radix);
    if v.fits(bits, false) {
        Some(v)
    } else {
        None
    }
}

pub fn self_test() -> Result<u64, String> {
    // the model against the primitives' from_str_radix on a fixed corpus
    let corpus: &[&str] = &[
        "", "+", "-", "0", "-0", "+0", "00", "000000000000000000000000000000000001", "255", "256", "-128", "-129", "127", "128", "+127", "+128",
        "ff", "FF", "fF", "100", "-80", "-81", "7f", "80", " 1", "1 ", "1_0", "+-1", "-+1", "--1", "1-", "é", "1é", "12a", "zz", "Zz", "g",
        "18446744073709551615", "18446744073709551616", "-9223372036854775808", "-9223372036854775809", "9223372036854775807", "9223372036854775808",
        "00000000000000000000000000018446744073709551615", "99999999999999999999999999", "-99999999999999999999999999", "1.0", "1e3", "\t1", "1\n", "0x10",
    ];
    let mut n = 0;
    let kind = |e: &core::num::IntErrorKind| match e {
        core::num::IntErrorKind::Empty => Kind::Empty,
        core::num::IntErrorKind::InvalidDigit => Kind::InvalidDigit,
        core::num::IntErrorKind::PosOverflow => Kind::PosOverflow,
        core::num::IntErrorKind::NegOverflow => Kind::NegOverflow,
        _ => Kind::Other,
    };
    for s in corpus {
        for radix in [2u32, 8, 10, 16, 36] {
            macro_rules! one {
                ($t:ty, $bits:expr, $signed:expr) => {{
                    let model = parse_expect(s.as_bytes(), radix, $bits, $signed);
                    let prim = <$t>::from_str_radix(s, radix);
                    n += 1;
                    let ok = match (&model, &prim) {
                        (Expect::Ok(z), Ok(v)) => *z == Z::from_i128(*v as i128),
                        (Expect::Err(k), Err(e)) => *k == kind(e.kind()),
                        (Expect::AnyErr, Err(_)) => true,
                        _ => false,
                    };
                    if !ok {
                        return Err(format!("parse model disagrees with {}::from_str_radix({:?}, {}): model {:?}, primitive {:?}", stringify!($t), s, radix, model, prim));
                    }
                }};
            }
            one!(u8, 8, false);
            one!(i8, 8, true);
            one!(u64, 64, false);
            one!(i64, 64, true);
        }
    }
    Ok(n)
}
