//! Reference model of float <-> integer casts: exact decode of f32/f64 bit patterns, exact
//! truncation, round-to-nearest-even from the reference integer. Validated against `as` on
//! primitives by `self_test`.

use crate::refint::Z;

#[derive(Clone, Copy, Debug)]
pub struct Fmt {
    pub p: u32,        // mantissa digits incl. the implicit bit (24 / 53)
    pub exp_bits: u32, // 8 / 11
}
pub const F32: Fmt = Fmt { p: 24, exp_bits: 8 };
pub const F64: Fmt = Fmt { p: 53, exp_bits: 11 };

impl Fmt {
    pub fn bias(&self) -> i64 {
        (1i64 << (self.exp_bits - 1)) - 1
    }
    pub fn total_bits(&self) -> u32 {
        self.p + self.exp_bits
    }
}

#[derive(Clone, Debug, PartialEq, Eq)]
pub enum Decoded {
    Nan,
    Inf { neg: bool },
    /// value = (-1)^neg * mant * 2^exp2
    Finite { neg: bool, mant: u64, exp2: i64 },
}

pub fn decode(bits: u64, f: Fmt) -> Decoded {
    let frac_bits = f.p - 1;
    let frac = bits & ((1u64 << frac_bits) - 1);
    let e = (bits >> frac_bits) & ((1u64 << f.exp_bits) - 1);
    let neg = (bits >> (f.total_bits() - 1)) & 1 == 1;
    if e == (1u64 << f.exp_bits) - 1 {
        if frac != 0 {
            Decoded::Nan
        } else {
            Decoded::Inf { neg }
        }
    } else if e == 0 {
        Decoded::Finite { neg, mant: frac, exp2: 1 - f.bias() - frac_bits as i64 }
    } else {
        Decoded::Finite { neg, mant: frac | (1u64 << frac_bits), exp2: e as i64 - f.bias() - frac_bits as i64 }
    }
}

/// the float truncated toward zero as an exact integer (None for NaN / infinities)
pub fn trunc(bits: u64, f: Fmt) -> Option<Z> {
    match decode(bits, f) {
        Decoded::Finite { neg, mant, exp2 } => {
            let m = Z::from_u64(mant);
            let t = if exp2 >= 0 { m.shl(exp2 as u64) } else { m.shr_floor((-exp2) as u64) };
            Some(if neg { t.neg() } else { t })
        }
        _ => None,
    }
}

/// does the float have a non-zero fractional part?
pub fn has_fraction(bits: u64, f: Fmt) -> bool {
    match decode(bits, f) {
        Decoded::Finite { mant, exp2, .. } => exp2 < 0 && mant != 0 && ((-exp2) >= 64 || mant & ((1u64 << (-exp2)) - 1) != 0),
        _ => false,
    }
}

/// `float as int` for a `bits_w`-wide signed/unsigned target: truncate, saturate, NaN -> 0
pub fn float_to_int(bits: u64, f: Fmt, bits_w: u64, signed: bool) -> Z {
    match decode(bits, f) {
        Decoded::Nan => Z::zero(),
        Decoded::Inf { neg } => {
            if neg {
                Z::min_of(bits_w, signed)
            } else {
                Z::max_of(bits_w, signed)
            }
        }
        _ => trunc(bits, f).unwrap().clamp_to(bits_w, signed),
    }
}

/// `int as float`: round to nearest, ties to even; +-infinity beyond the largest finite value
pub fn int_to_float(z: &Z, f: Fmt) -> u64 {
    let sign = if z.is_neg() { 1u64 << (f.total_bits() - 1) } else { 0 };
    if z.is_zero() {
        return 0;
    }
    let m = z.abs();
    let bl = m.bit_len();
    let p = f.p as u64;
    let mut exp = bl as i64 - 1;
    let q: u64;
    if bl <= p {
        q = m.shl(p - bl).to_u64().unwrap();
    } else {
        let shift = bl - p;
        let mut qq = m.shr_floor(shift).to_u64().unwrap();
        let rem = m.mod_2k(shift);
        let half = Z::pow2(shift - 1);
        if rem > half || (rem == half && qq & 1 == 1) {
            qq += 1;
            if qq == 1u64 << p {
                qq >>= 1;
                exp += 1;
            }
        }
        q = qq;
    }
    let max_exp = f.bias();
    if exp > max_exp {
        // infinity
        return sign | (((1u64 << f.exp_bits) - 1) << (f.p - 1));
    }
    sign | (((exp + f.bias()) as u64) << (f.p - 1)) | (q & ((1u64 << (f.p - 1)) - 1))
}

pub fn self_test() -> Result<u64, String> {
    let mut n = 0u64;
    let mut s = 0x243F6A8885A308D3u64;
    let mut next = || {
        s ^= s << 13;
        s ^= s >> 7;
        s ^= s << 17;
        s
    };
    // float -> int against `as`
    let mut patterns: Vec<u64> = vec![0, 1, 0x8000_0000_0000_0000, 0x3fe0_0000_0000_0000, 0x3fe8_0000_0000_0000, 0xbfe8_0000_0000_0000, 0x3ff0_0000_0000_0000,
        0x7ff0_0000_0000_0000, 0xfff0_0000_0000_0000, 0x7ff8_0000_0000_0000, 0xfff8_0000_0000_0001, 0x7fef_ffff_ffff_ffff, 0x43e0_0000_0000_0000, 0xc3e0_0000_0000_0000,
        0x43ef_ffff_ffff_ffff, 0x47ef_ffff_ffff_ffff, 0x000f_ffff_ffff_ffff];
    for _ in 0..3000 {
        let r = next();
        let e = match next() % 6 {
            0 => 1023 + next() % 140,
            1 => 1023 - next() % 5,
            2 => 1023 + 52 + next() % 3,
            3 => next() % 2047,
            4 => 1023 + [7, 8, 15, 16, 31, 32, 63, 64, 127, 128][(next() % 10) as usize] - next() % 2,
            _ => 2047,
        };
        let frac = match next() % 4 {
            0 => 0,
            1 => (1u64 << 52) - 1,
            2 => 1u64 << (next() % 52),
            _ => r & ((1u64 << 52) - 1),
        };
        patterns.push((next() & (1 << 63)) | (e << 52) | frac);
    }
    for &b in &patterns {
        let x = f64::from_bits(b);
        macro_rules! t64 { ($($t:ty, $w:expr, $s:expr);*) => {$(
            n += 1;
            if float_to_int(b, F64, $w, $s) != Z::from_i128((x as $t) as i128) && !(<$t>::BITS == 128 && !$s) {
                return Err(format!("float model: {:e} (0x{:016x}) as {} : model {:?}, `as` {}", x, b, stringify!($t), float_to_int(b, F64, $w, $s), x as $t));
            }
        )*}; }
        t64!(u8, 8, false; i8, 8, true; u16, 16, false; i16, 16, true; u32, 32, false; i32, 32, true; u64, 64, false; i64, 64, true; i128, 128, true);
        n += 1;
        if float_to_int(b, F64, 128, false) != Z::from_u128(x as u128) {
            return Err(format!("float model: {:e} as u128", x));
        }
        // f32
        let b32 = ((b >> 32) as u32) ^ (b as u32);
        let y = f32::from_bits(b32);
        macro_rules! t32 { ($($t:ty, $w:expr, $s:expr);*) => {$(
            n += 1;
            if float_to_int(b32 as u64, F32, $w, $s) != Z::from_i128((y as $t) as i128) {
                return Err(format!("float model: f32 {:e} (0x{:08x}) as {} : model {:?}, `as` {}", y, b32, stringify!($t), float_to_int(b32 as u64, F32, $w, $s), y as $t));
            }
        )*}; }
        t32!(u8, 8, false; i8, 8, true; u32, 32, false; i32, 32, true; u64, 64, false; i64, 64, true; i128, 128, true);
        n += 1;
        if float_to_int(b32 as u64, F32, 128, false) != Z::from_u128(y as u128) {
            return Err(format!("float model: f32 {:e} as u128", y));
        }
    }
    // int -> float against `as`
    for i in 0..6000u32 {
        let bl = 1 + next() % 128;
        let mut v: u128 = ((next() as u128) << 64 | next() as u128) >> (128 - bl);
        match i % 5 {
            0 => {
                // tie patterns
                let p = if i % 2 == 0 { 53 } else { 24 };
                if bl > p + 1 {
                    v = (v >> (bl - p - 1)) << (bl - p - 1);
                    v |= 1u128 << (bl - p - 1);
                }
            }
            1 => v |= (1u128 << bl.min(127)) - 1,
            _ => {}
        }
        n += 2;
        if int_to_float(&Z::from_u128(v), F64) != (v as f64).to_bits() {
            return Err(format!("float model: {} as f64", v));
        }
        if int_to_float(&Z::from_u128(v), F32) != (v as f32).to_bits() as u64 {
            return Err(format!("float model: {} as f32", v));
        }
        let sv = v as i128;
        n += 2;
        if int_to_float(&Z::from_i128(sv), F64) != (sv as f64).to_bits() {
            return Err(format!("float model: {} as f64", sv));
        }
        if int_to_float(&Z::from_i128(sv), F32) != (sv as f32).to_bits() as u64 {
            return Err(format!("float model: {} as f32", sv));
        }
    }
    Ok(n)
}
