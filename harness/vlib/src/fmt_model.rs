//! Reference model of Rust's integer formatting: `Formatter::pad_integral` (sign, `#` prefix,
//! sign-aware zero padding, fill / alignment / width) and the integer LowerExp/UpperExp layout, on
//! top of reference-integer numerals. Validated against the primitives by `self_test` on every run.

use crate::refint::Z;
use core::fmt::{self, Formatter};

#[derive(Clone, Copy, Debug, PartialEq, Eq)]
pub enum Align {
    Left,
    Center,
    Right,
}

#[derive(Clone, Copy, Debug)]
pub struct Spec {
    pub text: &'static str,
    pub fill: char,
    pub align: Option<Align>,
    pub plus: bool,
    pub alt: bool,
    pub zero: bool,
    pub has_width: bool,
}

include!("fmt_specs.rs");

#[derive(Clone, Copy, Debug, PartialEq, Eq)]
pub enum Tr {
    Display,
    Debug,
    Binary,
    Octal,
    LowerHex,
    UpperHex,
    LowerExp,
    UpperExp,
}
pub const TRAITS: [Tr; 8] = [Tr::Display, Tr::Debug, Tr::Binary, Tr::Octal, Tr::LowerHex, Tr::UpperHex, Tr::LowerExp, Tr::UpperExp];

/// wrapper whose Display forwards the SAME Formatter (flags included) to a chosen trait of a value
pub struct Via<'a>(pub &'a dyn Fn(&mut Formatter<'_>) -> fmt::Result);
impl fmt::Display for Via<'_> {
    fn fmt(&self, f: &mut Formatter<'_>) -> fmt::Result {
        (self.0)(f)
    }
}

/// format `v` through trait `tr` with specification `spec_idx` and runtime width `w`
pub fn fmt_any<T>(v: &T, tr: Tr, spec_idx: usize, w: usize) -> String
where
    T: fmt::Display + fmt::Debug + fmt::Binary + fmt::Octal + fmt::LowerHex + fmt::UpperHex + fmt::LowerExp + fmt::UpperExp,
{
    let f: &dyn Fn(&mut Formatter<'_>) -> fmt::Result = match tr {
        Tr::Display => &|f| fmt::Display::fmt(v, f),
        Tr::Debug => &|f| fmt::Debug::fmt(v, f),
        Tr::Binary => &|f| fmt::Binary::fmt(v, f),
        Tr::Octal => &|f| fmt::Octal::fmt(v, f),
        Tr::LowerHex => &|f| fmt::LowerHex::fmt(v, f),
        Tr::UpperHex => &|f| fmt::UpperHex::fmt(v, f),
        Tr::LowerExp => &|f| fmt::LowerExp::fmt(v, f),
        Tr::UpperExp => &|f| fmt::UpperExp::fmt(v, f),
    };
    apply(spec_idx, w, &Via(f))
}

/// `Formatter::pad_integral`
pub fn pad_integral(is_nonneg: bool, prefix: &str, buf: &str, sp: &Spec, width: usize) -> String {
    let mut len = buf.chars().count();
    let sign = if !is_nonneg {
        Some('-')
    } else if sp.plus {
        Some('+')
    } else {
        None
    };
    if sign.is_some() {
        len += 1;
    }
    let prefix = if sp.alt { prefix } else { "" };
    len += prefix.chars().count();
    let mut out = String::new();
    let write_prefix = |out: &mut String| {
        if let Some(s) = sign {
            out.push(s);
        }
        out.push_str(prefix);
    };
    if !sp.has_width || width <= len {
        write_prefix(&mut out);
        out.push_str(buf);
    } else if sp.zero {
        // sign-aware zero padding: sign and prefix first, then zeros, fill/alignment ignored
        write_prefix(&mut out);
        for _ in 0..(width - len) {
            out.push('0');
        }
        out.push_str(buf);
    } else {
        let pad = width - len;
        let (pre, post) = match sp.align.unwrap_or(Align::Right) {
            Align::Left => (0, pad),
            Align::Right => (pad, 0),
            Align::Center => (pad / 2, (pad + 1) / 2),
        };
        for _ in 0..pre {
            out.push(sp.fill);
        }
        write_prefix(&mut out);
        out.push_str(buf);
        for _ in 0..post {
            out.push(sp.fill);
        }
    }
    out
}

/// the numerals of one value, computed once per case
pub struct Numerals {
    pub nonneg: bool,
    pub dec: String,
    pub bin: String,
    pub oct: String,
    pub hex: String,
}
impl Numerals {
    /// value `z` held in a `bits`-wide integer (two's-complement pattern for bin/oct/hex)
    pub fn new(z: &Z, bits: u64) -> Numerals {
        let pat = z.mod_2k(bits);
        Numerals { nonneg: !z.is_neg(), dec: z.abs().to_str_radix(10), bin: pat.to_str_radix(2), oct: pat.to_str_radix(8), hex: pat.to_str_radix(16) }
    }
    pub fn model(&self, tr: Tr, spec_idx: usize, width: usize) -> String {
        let sp = spec(spec_idx);
        match tr {
            Tr::Display | Tr::Debug => pad_integral(self.nonneg, "", &self.dec, &sp, width),
            Tr::Binary => pad_integral(true, "0b", &self.bin, &sp, width),
            Tr::Octal => pad_integral(true, "0o", &self.oct, &sp, width),
            Tr::LowerHex => pad_integral(true, "0x", &self.hex, &sp, width),
            Tr::UpperHex => pad_integral(true, "0x", &self.hex.to_uppercase(), &sp, width),
            Tr::LowerExp | Tr::UpperExp => {
                let e = if tr == Tr::LowerExp { 'e' } else { 'E' };
                let d = &self.dec;
                let buf = if d == "0" {
                    format!("0{}0", e)
                } else {
                    let exp = d.len() - 1;
                    let t = d.trim_end_matches('0');
                    if t.len() == 1 {
                        format!("{}{}{}", t, e, exp)
                    } else {
                        format!("{}.{}{}{}", &t[0..1], &t[1..], e, exp)
                    }
                };
                pad_integral(self.nonneg, "", &buf, &sp, width)
            }
        }
    }
}

/// expected text for value `z` held in a `bits`-wide signed/unsigned integer
pub fn model(z: &Z, bits: u64, tr: Tr, spec_idx: usize, width: usize) -> String {
    Numerals::new(z, bits).model(tr, spec_idx, width)
}

/// the same specification applied to the primitive of exactly `bits` bits holding the value z
pub fn prim_text(z: &Z, bits: u64, signed: bool, tr: Tr, spec_idx: usize, width: usize) -> Option<String> {
    macro_rules! go {
        ($t:ty, $via:ident) => {{
            let v = z.$via()? as $t;
            Some(fmt_any(&v, tr, spec_idx, width))
        }};
    }
    match (bits, signed) {
        (8, false) => go!(u8, to_u128),
        (16, false) => go!(u16, to_u128),
        (32, false) => go!(u32, to_u128),
        (64, false) => go!(u64, to_u128),
        (128, false) => go!(u128, to_u128),
        (8, true) => go!(i8, to_i128),
        (16, true) => go!(i16, to_i128),
        (32, true) => go!(i32, to_i128),
        (64, true) => go!(i64, to_i128),
        (128, true) => go!(i128, to_i128),
        _ => None,
    }
}

pub fn self_test() -> Result<u64, String> {
    let mut n = 0;
    let vals: Vec<i128> = vec![
        0, 1, -1, 7, 8, 9, 10, 11, 99, 100, 101, -100, 1000, 1200, 1230, -1200, 255, 256, -128, 127, 128, 32767, -32768, 65535, 65536,
        1_000_000, 120_000_000, 4294967295, 4294967296, -2147483648, i64::MAX as i128, i64::MIN as i128, u64::MAX as i128, 10i128.pow(18), 10i128.pow(19),
        i128::MAX, i128::MIN, 0x00ff_00ff, 0x0100_0000_0000, 12345678901234567890, 100_000_000_000_000_000_000_000_000_000,
    ];
    for &v in &vals {
        let z = Z::from_i128(v);
        for bits in [8u64, 16, 32, 64, 128] {
            for signed in [false, true] {
                if !z.fits(bits, signed) {
                    continue;
                }
                for (ti, &tr) in TRAITS.iter().enumerate() {
                    for si in 0..SPEC_COUNT {
                        // a spread of widths per (value, spec) without blowing up the count
                        let widths = [0usize, 1, 5, 12, 40, 131];
                        let w = widths[(si + ti + (v.unsigned_abs() % 7) as usize) % widths.len()];
                        let m = model(&z, bits, tr, si, w);
                        let p = prim_text(&z, bits, signed, tr, si, w).unwrap();
                        n += 1;
                        if m != p {
                            return Err(format!("fmt model disagrees with the primitive: value {v} bits {bits} signed {signed} trait {tr:?} spec {} width {w}: model {m:?}, primitive {p:?}", spec(si).text));
                        }
                    }
                }
            }
        }
    }
    Ok(n)
}
