//! Case data: everything a generated case consists of can be written to / read from JSON, so a
//! shrunk counter-example becomes a replay file that needs no RNG.

use serde_json::{json, Value};
use std::fmt;

/// A little-endian bit pattern (operand), printed and stored as hex (most significant byte first).
#[derive(Clone, PartialEq, Eq, Hash, Default)]
pub struct Pat(pub Vec<u8>);

impl Pat {
    pub fn hex(&self) -> String {
        let mut s = String::with_capacity(2 + 2 * self.0.len());
        s.push_str("0x");
        for b in self.0.iter().rev() {
            s.push_str(&format!("{:02x}", b));
        }
        s
    }
    pub fn from_hex(s: &str) -> Option<Pat> {
        let s = s.strip_prefix("0x")?;
        if s.len() % 2 != 0 {
            return None;
        }
        let mut v = Vec::with_capacity(s.len() / 2);
        for i in (0..s.len()).step_by(2) {
            v.push(u8::from_str_radix(&s[i..i + 2], 16).ok()?);
        }
        v.reverse();
        Some(Pat(v))
    }
    pub fn bytes(&self) -> &[u8] {
        &self.0
    }
}
impl fmt::Debug for Pat {
    fn fmt(&self, f: &mut fmt::Formatter<'_>) -> fmt::Result {
        f.write_str(&self.hex())
    }
}

/// raw byte string (in order), e.g. parse input or byte slices
#[derive(Clone, PartialEq, Eq, Hash, Default)]
pub struct Bytes(pub Vec<u8>);
impl fmt::Debug for Bytes {
    fn fmt(&self, f: &mut fmt::Formatter<'_>) -> fmt::Result {
        write!(f, "b\"")?;
        for &b in &self.0 {
            if (0x20..0x7f).contains(&b) && b != b'"' && b != b'\\' {
                write!(f, "{}", b as char)?;
            } else {
                write!(f, "\\x{:02x}", b)?;
            }
        }
        write!(f, "\"")
    }
}

pub trait CaseData: Sized {
    fn to_json(&self) -> Value;
    fn from_json(v: &Value) -> Option<Self>;
}

impl CaseData for Pat {
    fn to_json(&self) -> Value {
        Value::String(self.hex())
    }
    fn from_json(v: &Value) -> Option<Self> {
        Pat::from_hex(v.as_str()?)
    }
}
impl CaseData for Bytes {
    fn to_json(&self) -> Value {
        json!({ "bytes_hex": self.0.iter().map(|b| format!("{:02x}", b)).collect::<String>(),
                "lossy": String::from_utf8_lossy(&self.0) })
    }
    fn from_json(v: &Value) -> Option<Self> {
        let s = v.get("bytes_hex")?.as_str()?;
        let mut out = Vec::new();
        for i in (0..s.len()).step_by(2) {
            out.push(u8::from_str_radix(s.get(i..i + 2)?, 16).ok()?);
        }
        Some(Bytes(out))
    }
}
impl CaseData for bool {
    fn to_json(&self) -> Value {
        Value::Bool(*self)
    }
    fn from_json(v: &Value) -> Option<Self> {
        v.as_bool()
    }
}
impl CaseData for String {
    fn to_json(&self) -> Value {
        Value::String(self.clone())
    }
    fn from_json(v: &Value) -> Option<Self> {
        v.as_str().map(|s| s.to_string())
    }
}
macro_rules! case_uint {
    ($($t:ty),*) => {$(
        impl CaseData for $t {
            fn to_json(&self) -> Value { json!(*self as u64) }
            fn from_json(v: &Value) -> Option<Self> { <$t>::try_from(v.as_u64()?).ok() }
        }
    )*};
}
case_uint!(u8, u16, u32, u64, usize);
macro_rules! case_sint {
    ($($t:ty),*) => {$(
        impl CaseData for $t {
            fn to_json(&self) -> Value { json!(*self as i64) }
            fn from_json(v: &Value) -> Option<Self> { <$t>::try_from(v.as_i64()?).ok() }
        }
    )*};
}
case_sint!(i8, i16, i32, i64, isize);
impl CaseData for u128 {
    fn to_json(&self) -> Value {
        Value::String(self.to_string())
    }
    fn from_json(v: &Value) -> Option<Self> {
        v.as_str()?.parse().ok()
    }
}
impl CaseData for i128 {
    fn to_json(&self) -> Value {
        Value::String(self.to_string())
    }
    fn from_json(v: &Value) -> Option<Self> {
        v.as_str()?.parse().ok()
    }
}
impl<T: CaseData> CaseData for Vec<T> {
    fn to_json(&self) -> Value {
        Value::Array(self.iter().map(|x| x.to_json()).collect())
    }
    fn from_json(v: &Value) -> Option<Self> {
        v.as_array()?.iter().map(|x| T::from_json(x)).collect()
    }
}
impl<T: CaseData> CaseData for Option<T> {
    fn to_json(&self) -> Value {
        match self {
            None => Value::Null,
            Some(x) => json!({ "some": x.to_json() }),
        }
    }
    fn from_json(v: &Value) -> Option<Self> {
        if v.is_null() {
            Some(None)
        } else {
            Some(Some(T::from_json(v.get("some")?)?))
        }
    }
}
macro_rules! case_tuple {
    ($(($($n:tt $t:ident),+))*) => {$(
        impl<$($t: CaseData),+> CaseData for ($($t,)+) {
            fn to_json(&self) -> Value { Value::Array(vec![$(self.$n.to_json()),+]) }
            fn from_json(v: &Value) -> Option<Self> {
                let a = v.as_array()?;
                Some(($($t::from_json(a.get($n)?)?,)+))
            }
        }
    )*};
}
case_tuple! {
    (0 A)
    (0 A, 1 B)
    (0 A, 1 B, 2 C)
    (0 A, 1 B, 2 C, 3 D)
    (0 A, 1 B, 2 C, 3 D, 4 E)
    (0 A, 1 B, 2 C, 3 D, 4 E, 5 F)
    (0 A, 1 B, 2 C, 3 D, 4 E, 5 F, 6 G)
    (0 A, 1 B, 2 C, 3 D, 4 E, 5 F, 6 G, 7 H)
}
