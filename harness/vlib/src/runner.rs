//! Job runner: every (sub-check x configuration) is a job with its own proptest `TestRunner`
//! seeded from VERIF_SEED and the job name, so a run is a pure function of the code and the seed.

use crate::case::CaseData;
use proptest::strategy::Strategy;
use proptest::test_runner::{Config, RngAlgorithm, TestCaseError, TestError, TestRng, TestRunner};
use serde_json::{json, Value};
use std::cell::{Cell, RefCell};
use std::collections::{BTreeMap, HashSet};
use std::fmt::Debug;
use std::hash::{Hash, Hasher};
use std::panic::{self, AssertUnwindSafe};
use std::sync::atomic::{AtomicUsize, Ordering};
use std::sync::Mutex;
use std::time::Instant;

#[derive(Clone, Copy, PartialEq, Eq, Debug)]
pub enum Tier {
    Quick,
    Thorough,
}

#[derive(Clone, Debug)]
pub struct Opts {
    pub property: String,
    pub tier: Tier,
    pub seed: u64,
    pub profile: String,
    pub threads: usize,
    pub replay: Option<String>,
    pub out: Option<String>,
    pub verif_dir: String,
    pub filter: Option<String>,
    pub scale: f64,
    pub list: bool,
}

// ------------------------------------------------------------------------------------------------
// panic capture
// ------------------------------------------------------------------------------------------------

thread_local! {
    static LAST_PANIC: RefCell<Option<(String, String)>> = RefCell::new(None); // (location file, message)
    static CMPS: Cell<u64> = Cell::new(0);
}

/// cases currently being evaluated (thread, "job/part", start) - read only by the watchdog, to say where a run hung
static IN_FLIGHT: std::sync::Mutex<Vec<(std::thread::ThreadId, String, Instant)>> = std::sync::Mutex::new(Vec::new());
/// failures of jobs that have already finished - read only by the watchdog, so that violations found
/// before another job hung are still reported (the hang itself stays "inconclusive")
static EARLY_FAILURES: std::sync::Mutex<Vec<Failure>> = std::sync::Mutex::new(Vec::new());

struct InFlight;
impl InFlight {
    fn enter(what: String) -> InFlight {
        if let Ok(mut g) = IN_FLIGHT.lock() {
            g.push((std::thread::current().id(), what, Instant::now()));
        }
        InFlight
    }
}
impl Drop for InFlight {
    fn drop(&mut self) {
        if let Ok(mut g) = IN_FLIGHT.lock() {
            let me = std::thread::current().id();
            if let Some(i) = g.iter().rposition(|e| e.0 == me) {
                g.swap_remove(i);
            }
        }
    }
}

pub fn install_panic_hook() {
    panic::set_hook(Box::new(|info| {
        let file = info.location().map(|l| format!("{}:{}", l.file(), l.line())).unwrap_or_default();
        let msg = if let Some(s) = info.payload().downcast_ref::<&str>() {
            s.to_string()
        } else if let Some(s) = info.payload().downcast_ref::<String>() {
            s.clone()
        } else {
            "<non-string panic payload>".to_string()
        };
        LAST_PANIC.with(|p| *p.borrow_mut() = Some((file, msg)));
    }));
}

/// Information about a caught panic.
#[derive(Clone, Debug, PartialEq, Eq)]
pub struct Panicked {
    pub at: String,
    pub msg: String,
}
impl Panicked {
    /// did the panic originate in harness code (checks/ or vlib/) rather than in bnum / core?
    pub fn in_harness(&self) -> bool {
        if self.msg.starts_with("SAMPLER-STUCK") {
            return false; // raised by ScriptRng on behalf of the code under test: a sampler that never returns
        }
        self.at.starts_with("checks/") || self.at.starts_with("vlib/") || self.at.contains("/verif/harness/")
    }
}

/// Run `f`, turning a panic into `Err(Panicked)`. Calls into bnum whose panic outcome matters are
/// wrapped in this.
pub fn catch<R>(f: impl FnOnce() -> R) -> Result<R, Panicked> {
    LAST_PANIC.with(|p| *p.borrow_mut() = None);
    match panic::catch_unwind(AssertUnwindSafe(f)) {
        Ok(r) => Ok(r),
        Err(_) => {
            let (at, msg) = LAST_PANIC.with(|p| p.borrow_mut().take()).unwrap_or_default();
            Err(Panicked { at, msg })
        }
    }
}

/// `Returned(v)` / `Panicked` outcome with equality ignoring message and location.
#[derive(Clone, Debug)]
pub enum Outcome<T> {
    Returned(T),
    Panic(String),
}
impl<T: PartialEq> PartialEq for Outcome<T> {
    fn eq(&self, o: &Self) -> bool {
        match (self, o) {
            (Outcome::Returned(a), Outcome::Returned(b)) => a == b,
            (Outcome::Panic(_), Outcome::Panic(_)) => true,
            _ => false,
        }
    }
}
impl<T> Outcome<T> {
    pub fn is_panic(&self) -> bool {
        matches!(self, Outcome::Panic(_))
    }
    pub fn map<U>(self, f: impl FnOnce(T) -> U) -> Outcome<U> {
        match self {
            Outcome::Returned(v) => Outcome::Returned(f(v)),
            Outcome::Panic(m) => Outcome::Panic(m),
        }
    }
}
/// Outcome of a call into the code under test. A panic located in harness code is re-raised so it
/// is classified as a harness error, not as behaviour of bnum.
pub fn outcome<R>(f: impl FnOnce() -> R) -> Outcome<R> {
    match catch(f) {
        Ok(v) => Outcome::Returned(v),
        Err(p) => {
            if p.in_harness() {
                panic!("harness panic inside outcome(): {} at {}", p.msg, p.at);
            }
            Outcome::Panic(format!("{} at {}", p.msg, p.at))
        }
    }
}

/// number of calls that did not return within their time box (undecided cases; reported at the end as exit 2
/// unless violations were found elsewhere)
pub static TIMED_OUT: std::sync::atomic::AtomicU64 = std::sync::atomic::AtomicU64::new(0);

/// `outcome` in a sacrificial thread with a time box, for calls into iterative code that a defect can
/// turn into an endless loop. `None` = the call did not return within `secs` seconds: the case is
/// UNDECIDED (never a violation - slowness is not a correctness signal), the spinning thread is
/// abandoned, and the caller goes on with the next case so that other violations still surface.
/// After three time-outs in the process further timed calls are refused (`None` at once): each
/// abandoned thread keeps a core busy.
pub fn outcome_timed<R: Send + 'static>(secs: u64, f: impl FnOnce() -> R + Send + 'static) -> Option<Outcome<R>> {
    use std::sync::atomic::Ordering::SeqCst;
    if TIMED_OUT.load(SeqCst) >= 3 {
        TIMED_OUT.fetch_add(1, SeqCst);
        return None;
    }
    let (rtx, rrx) = std::sync::mpsc::channel();
    let job: TimedJob = Box::new(move || {
        let r = match catch(f) {
            Ok(v) => Ok(Outcome::Returned(v)),
            Err(p) if p.in_harness() => Err(format!("harness panic inside outcome_timed(): {} at {}", p.msg, p.at)),
            Err(p) => Ok(Outcome::Panic(format!("{} at {}", p.msg, p.at))),
        };
        let _ = rtx.send(r);
    });
    // one helper thread per calling thread, reused from call to call (spawning a thread per call costs
    // more than a root); a helper that got stuck is abandoned and replaced
    TIMED_EXEC.with(|e| {
        let mut e = e.borrow_mut();
        if e.is_none() {
            let (tx, rx) = std::sync::mpsc::channel::<TimedJob>();
            std::thread::spawn(move || {
                while let Ok(job) = rx.recv() {
                    job();
                }
            });
            *e = Some(tx);
        }
        let _ = e.as_ref().unwrap().send(job);
    });
    match rrx.recv_timeout(std::time::Duration::from_secs(secs)) {
        Ok(Ok(o)) => Some(o),
        Ok(Err(m)) => panic!("{}", m),
        Err(_) => {
            TIMED_EXEC.with(|e| *e.borrow_mut() = None);
            TIMED_OUT.fetch_add(1, SeqCst);
            None
        }
    }
}

type TimedJob = Box<dyn FnOnce() + Send>;
thread_local! {
    static TIMED_EXEC: RefCell<Option<std::sync::mpsc::Sender<TimedJob>>> = RefCell::new(None);
}

/// Outcome of an expression that is expected to panic *at the call site inside the harness*
/// (the same expression on a primitive integer, used as a twin oracle): no harness classification.
pub fn outcome_here<R>(f: impl FnOnce() -> R) -> Outcome<R> {
    match catch(f) {
        Ok(v) => Outcome::Returned(v),
        Err(p) => Outcome::Panic(format!("{} at {}", p.msg, p.at)),
    }
}

pub fn count_cmp(n: u64) {
    CMPS.with(|c| c.set(c.get() + n));
}

/// compare observed with expected; on mismatch return Err from the enclosing evaluation function
#[macro_export]
macro_rules! ck {
    ($what:expr, $obs:expr, $exp:expr) => {{
        $crate::runner::count_cmp(1);
        let o = $obs;
        let e = $exp;
        if o != e {
            return Err(format!("{}: expected {:?}, observed {:?}", $what, e, o));
        }
    }};
}
/// assert a condition about bnum's behaviour
#[macro_export]
macro_rules! ck_true {
    ($what:expr, $cond:expr) => {{
        $crate::runner::count_cmp(1);
        if !($cond) {
            return Err(format!("{}: condition violated", $what));
        }
    }};
}

// ------------------------------------------------------------------------------------------------
// per-case observer and statistics
// ------------------------------------------------------------------------------------------------

pub struct Obs {
    nontrivial: bool,
    labels: Vec<&'static str>,
    note: Option<String>,
    excluded: bool,
    pub want_note: bool,
}
impl Obs {
    fn new(want_note: bool) -> Obs {
        Obs { nontrivial: false, labels: Vec::new(), note: None, excluded: false, want_note }
    }
    /// mark the case as non-trivial by the property's stated rule
    pub fn nt(&mut self) {
        self.nontrivial = true;
    }
    pub fn nt_if(&mut self, c: bool) {
        if c {
            self.nontrivial = true;
        }
    }
    pub fn label(&mut self, l: &'static str) {
        if !self.labels.contains(&l) {
            self.labels.push(l);
        }
    }
    pub fn label_if(&mut self, c: bool, l: &'static str) {
        if c {
            self.label(l);
        }
    }
    /// a short human-readable summary (expected / observed) stored with evidence samples
    pub fn note(&mut self, f: impl FnOnce() -> String) {
        if self.want_note && self.note.is_none() {
            self.note = Some(f());
        }
    }
    /// the case fell into the region of an open known finding and was not evaluated
    pub fn excluded(&mut self) {
        self.excluded = true;
    }
}

#[derive(Default)]
pub struct Stats {
    pub cases: u64,
    pub cmps: u64,
    pub nontrivial: u64,
    pub hashes: HashSet<u64>,
    pub labels: BTreeMap<String, u64>,
    pub samples: Vec<Value>,
    pub per_job: BTreeMap<String, u64>,
    pub excluded_known: u64,
    pub exhaustive_parts: Vec<String>,
    pub failures: Vec<Failure>,
    pub harness_errors: Vec<String>,
    pub replayed: u64,
}
impl Stats {
    fn merge(&mut self, o: Stats) {
        self.cases += o.cases;
        self.cmps += o.cmps;
        self.nontrivial += o.nontrivial;
        self.hashes.extend(o.hashes);
        for (k, v) in o.labels {
            *self.labels.entry(k).or_default() += v;
        }
        self.samples.extend(o.samples);
        for (k, v) in o.per_job {
            *self.per_job.entry(k).or_default() += v;
        }
        self.excluded_known += o.excluded_known;
        self.exhaustive_parts.extend(o.exhaustive_parts);
        self.failures.extend(o.failures);
        self.harness_errors.extend(o.harness_errors);
        self.replayed += o.replayed;
    }
}

#[derive(Clone, Debug)]
pub struct Failure {
    pub job: String,
    pub part: String,
    pub message: String,
    pub case: Value,
    pub case_dbg: String,
}

pub struct Job {
    pub name: String,
    pub body: Box<dyn Fn(&mut Ctx) + Send + Sync>,
}
impl Job {
    pub fn new(name: impl Into<String>, body: impl Fn(&mut Ctx) + Send + Sync + 'static) -> Job {
        Job { name: name.into(), body: Box::new(body) }
    }
}

pub struct Ctx<'a> {
    pub opts: &'a Opts,
    pub job: String,
    stats: Stats,
    replay: Option<(String, Value)>, // (part, case)
    replay_mode: bool,
    /// upper bound on proptest's shrink iterations for the parts run after it is set (default 3000);
    /// jobs whose single evaluation takes a second or more lower it so that a failure is reported in minutes
    pub shrink_iters: u32,
}

fn fnv1a(s: &str) -> u64 {
    let mut h = 0xcbf29ce484222325u64;
    for b in s.bytes() {
        h ^= b as u64;
        h = h.wrapping_mul(0x100000001b3);
    }
    h
}
fn splitmix64(mut x: u64) -> u64 {
    x = x.wrapping_add(0x9E3779B97F4A7C15);
    let mut z = x;
    z = (z ^ (z >> 30)).wrapping_mul(0xBF58476D1CE4E5B9);
    z = (z ^ (z >> 27)).wrapping_mul(0x94D049BB133111EB);
    z ^ (z >> 31)
}

const MAX_SAMPLES_PER_PART: usize = 2;

impl<'a> Ctx<'a> {
    pub fn tier(&self) -> Tier {
        self.opts.tier
    }
    pub fn is_debug_build(&self) -> bool {
        self.opts.profile == "dbg"
    }
    /// case budget: `quick` cases in the quick tier, `quick * factor` in the thorough tier
    pub fn budget(&self, quick: u32, thorough_factor: u32) -> u32 {
        let base = match self.opts.tier {
            Tier::Quick => quick as f64,
            Tier::Thorough => quick as f64 * thorough_factor as f64,
        };
        ((base * self.opts.scale).ceil() as u32).max(1)
    }

    fn seed_bytes(&self, part: &str) -> [u8; 32] {
        let mut s = splitmix64(self.opts.seed ^ fnv1a(&format!("{}|{}|{}|{}", self.opts.property, self.job, part, self.opts.profile)));
        let mut out = [0u8; 32];
        for chunk in out.chunks_mut(8) {
            s = splitmix64(s);
            chunk.copy_from_slice(&s.to_le_bytes());
        }
        out
    }

    fn eval_one<V: CaseData + Hash + Debug, F: Fn(&V, &mut Obs) -> Result<(), String>>(
        &mut self,
        part: &str,
        v: &V,
        f: &F,
        counting: bool,
        part_samples: &mut usize,
    ) -> Result<(), String> {
        let mut obs = Obs::new(counting && *part_samples < MAX_SAMPLES_PER_PART);
        let before = CMPS.with(|c| c.get());
        let in_flight = InFlight::enter(format!("{}/{}", self.job, part));
        let r = catch(|| f(v, &mut obs));
        drop(in_flight);
        let cm = CMPS.with(|c| c.get()) - before;
        let r = match r {
            Ok(r) => r,
            Err(p) => {
                if p.in_harness() {
                    self.stats.harness_errors.push(format!("{}/{}: harness panic `{}` at {} on case {:?}", self.job, part, p.msg, p.at, v));
                    return Ok(());
                }
                Err(format!("unexpected panic `{}` at {}", p.msg, p.at))
            }
        };
        if counting {
            let st = &mut self.stats;
            st.cases += 1;
            st.cmps += cm;
            *st.per_job.entry(self.job.clone()).or_default() += 1;
            if obs.excluded {
                st.excluded_known += 1;
            }
            for l in &obs.labels {
                *st.labels.entry((*l).to_string()).or_default() += 1;
            }
            if obs.nontrivial {
                st.nontrivial += 1;
                let mut h = std::collections::hash_map::DefaultHasher::new();
                self.opts.profile.hash(&mut h);
                self.job.hash(&mut h);
                part.hash(&mut h);
                v.hash(&mut h);
                let fresh = st.hashes.insert(h.finish());
                if fresh && *part_samples < MAX_SAMPLES_PER_PART && r.is_ok() {
                    *part_samples += 1;
                    st.samples.push(json!({
                        "job": self.job, "part": part, "profile": self.opts.profile,
                        "case": v.to_json(),
                        "labels": obs.labels,
                        "note": obs.note,
                    }));
                }
            }
        }
        r
    }

    fn record_failure<V: CaseData + Debug>(&mut self, part: &str, msg: String, v: &V) {
        self.stats.failures.push(Failure {
            job: self.job.clone(),
            part: part.to_string(),
            message: msg,
            case: v.to_json(),
            case_dbg: format!("{:?}", v),
        });
    }

    /// Generated search: `cases` cases from `strat`, each evaluated by `f`; the first failure is
    /// shrunk by proptest and recorded.
    pub fn run<S, F>(&mut self, part: &str, cases: u32, strat: S, f: F)
    where
        S: Strategy,
        S::Value: CaseData + Hash + Debug + Clone,
        F: Fn(&S::Value, &mut Obs) -> Result<(), String>,
    {
        if self.replay_mode {
            if let Some((rpart, rcase)) = self.replay.clone() {
                if rpart == part {
                    match <S::Value as CaseData>::from_json(&rcase) {
                        Some(v) => {
                            let mut ps = usize::MAX;
                            self.stats.replayed += 1;
                            if let Err(m) = self.eval_one(part, &v, &f, false, &mut ps) {
                                self.record_failure(part, m, &v);
                            }
                        }
                        None => self.stats.harness_errors.push(format!("{}/{}: cannot decode replay case", self.job, part)),
                    }
                }
            }
            return;
        }
        let config = Config {
            cases,
            failure_persistence: None,
            max_shrink_iters: self.shrink_iters,
            max_global_rejects: 1 << 20,
            verbose: 0,
            ..Config::default()
        };
        let rng = TestRng::from_seed(RngAlgorithm::ChaCha, &self.seed_bytes(part));
        let mut runner = TestRunner::new_with_rng(config, rng);
        let failed = Cell::new(false);
        let samples = Cell::new(0usize);
        let this = RefCell::new(&mut *self);
        let res = runner.run(&strat, |v| {
            let counting = !failed.get();
            let mut ps = samples.get();
            let r = this.borrow_mut().eval_one(part, &v, &f, counting, &mut ps);
            samples.set(ps);
            match r {
                Ok(()) => Ok(()),
                Err(m) => {
                    failed.set(true);
                    Err(TestCaseError::fail(m))
                }
            }
        });
        drop(this);
        match res {
            Ok(()) => {}
            Err(TestError::Fail(reason, value)) => {
                self.record_failure(part, reason.message().to_string(), &value);
            }
            Err(TestError::Abort(reason)) => {
                self.stats.harness_errors.push(format!("{}/{}: proptest aborted: {}", self.job, part, reason.message()));
            }
        }
    }

    /// Exhaustive enumeration of a finite space (recorded in evidence as an exhaustive part).
    pub fn enumerate<V, I, F>(&mut self, part: &str, what: &str, items: I, f: F)
    where
        V: CaseData + Hash + Debug + Clone,
        I: Iterator<Item = V>,
        F: Fn(&V, &mut Obs) -> Result<(), String>,
    {
        if self.replay_mode {
            if let Some((rpart, rcase)) = self.replay.clone() {
                if rpart == part {
                    if let Some(v) = V::from_json(&rcase) {
                        let mut ps = usize::MAX;
                        self.stats.replayed += 1;
                        if let Err(m) = self.eval_one(part, &v, &f, false, &mut ps) {
                            self.record_failure(part, m, &v);
                        }
                    }
                }
            }
            return;
        }
        let mut ps = 0usize;
        let mut n = 0u64;
        for v in items {
            n += 1;
            if let Err(m) = self.eval_one(part, &v, &f, true, &mut ps) {
                self.record_failure(part, m, &v);
                return;
            }
        }
        self.stats.exhaustive_parts.push(format!("{}/{}: {} ({} cases)", self.job, part, what, n));
    }
}

// ------------------------------------------------------------------------------------------------
// main driver
// ------------------------------------------------------------------------------------------------

pub fn parse_args(property: &str) -> Opts {
    let mut o = Opts {
        property: property.to_string(),
        tier: match std::env::var("VERIF_TIER").ok().as_deref() {
            Some("thorough") => Tier::Thorough,
            _ => Tier::Quick,
        },
        seed: std::env::var("VERIF_SEED").ok().and_then(|s| s.trim().parse::<i128>().ok()).map(|x| x as u64).unwrap_or(0),
        profile: if cfg!(debug_assertions) { "dbg".into() } else { "rel".into() },
        threads: std::env::var("VERIF_THREADS").ok().and_then(|s| s.parse().ok()).unwrap_or(16),
        replay: None,
        out: None,
        verif_dir: std::env::var("VERIF_DIR").unwrap_or_else(|_| "/verif".into()),
        filter: None,
        scale: std::env::var("VERIF_SCALE").ok().and_then(|s| s.parse().ok()).unwrap_or(1.0),
        list: false,
    };
    let args: Vec<String> = std::env::args().collect();
    let mut i = 1;
    while i < args.len() {
        let a = args[i].as_str();
        let mut val = || {
            i += 1;
            args.get(i).cloned().unwrap_or_else(|| {
                eprintln!("missing value for {}", a);
                std::process::exit(2)
            })
        };
        match a {
            "--tier" => {
                o.tier = match val().as_str() {
                    "quick" => Tier::Quick,
                    "thorough" => Tier::Thorough,
                    t => {
                        eprintln!("unknown tier {t}");
                        std::process::exit(2)
                    }
                }
            }
            "--seed" => o.seed = val().parse::<i128>().map(|x| x as u64).unwrap_or(0),
            "--threads" => o.threads = val().parse().unwrap_or(16),
            "--replay" => o.replay = Some(val()),
            "--out" => o.out = Some(val()),
            "--filter" => o.filter = Some(val()),
            "--scale" => o.scale = val().parse().unwrap_or(1.0),
            "--list" => o.list = true,
            other => {
                eprintln!("unknown argument {other}");
                std::process::exit(2)
            }
        }
        i += 1;
    }
    o
}

pub struct Property {
    pub id: &'static str,
    /// how cases are generated and what makes one non-trivial / distinct
    pub rule: &'static str,
    pub assumptions: &'static [&'static str],
}

fn run_jobs(opts: &Opts, jobs: &[Job], replay: Option<(String, String, Value)>) -> Stats {
    let total = Mutex::new(Stats::default());
    let next = AtomicUsize::new(0);
    let selected: Vec<&Job> = jobs
        .iter()
        .filter(|j| match (&replay, &opts.filter) {
            (Some((jn, _, _)), _) => &j.name == jn,
            (None, Some(f)) => j.name.contains(f.as_str()),
            _ => true,
        })
        .collect();
    let threads = opts.threads.max(1).min(selected.len().max(1));
    std::thread::scope(|s| {
        for _ in 0..threads {
            s.spawn(|| loop {
                let i = next.fetch_add(1, Ordering::SeqCst);
                if i >= selected.len() {
                    break;
                }
                let job = selected[i];
                let mut ctx = Ctx {
                    opts,
                    job: job.name.clone(),
                    stats: Stats::default(),
                    replay: replay.as_ref().map(|(_, p, c)| (p.clone(), c.clone())),
                    replay_mode: replay.is_some(),
                    shrink_iters: 3000,
                };
                let r = catch(|| (job.body)(&mut ctx));
                if let Err(p) = r {
                    ctx.stats.harness_errors.push(format!("{}: job body panicked `{}` at {}", job.name, p.msg, p.at));
                }
                if replay.is_none() && !ctx.stats.failures.is_empty() {
                    if let Ok(mut g) = EARLY_FAILURES.lock() {
                        g.extend(ctx.stats.failures.iter().cloned());
                    }
                }
                total.lock().unwrap().merge(ctx.stats);
            });
        }
    });
    total.into_inner().unwrap()
}

/// writes one replay file per failure; returns (path, message) pairs and the write errors
fn write_replays(prop_id: &str, replay_dir: &str, profile: &str, seed: u64, tier: &str, failures: &[Failure]) -> (Vec<(String, String)>, Vec<String>) {
    let _ = std::fs::create_dir_all(replay_dir);
    let (mut out, mut errs) = (Vec::new(), Vec::new());
    for (k, f) in failures.iter().enumerate() {
        let fname = format!("{}/{}-{}-{}.json", replay_dir, sanitize(&f.job), sanitize(&f.part), profile);
        let fname = if failures[..k].iter().any(|g| g.job == f.job && g.part == f.part) { format!("{}.{}", fname, k) } else { fname };
        let doc = json!({
            "property": prop_id, "job": f.job, "part": f.part, "profile": profile,
            "seed": seed, "tier": tier,
            "case": f.case, "case_debug": f.case_dbg, "message": f.message,
        });
        if let Err(e) = std::fs::write(&fname, serde_json::to_string_pretty(&doc).unwrap()) {
            errs.push(format!("cannot write replay file {}: {}", fname, e));
        }
        out.push((fname, format!("{} / {}: {} on case {}", f.job, f.part, f.message, truncate(&f.case_dbg, 600))));
    }
    (out, errs)
}

fn sanitize(s: &str) -> String {
    s.chars().map(|c| if c.is_ascii_alphanumeric() || c == '-' || c == '_' || c == '.' { c } else { '_' }).collect()
}

/// Entry point of every property binary. Exit codes: 0 held, 1 violation(s), 2 harness could not decide.
pub fn main(prop: Property, jobs: Vec<Job>, selftests: &[(&str, fn() -> Result<u64, String>)]) -> ! {
    let opts = parse_args(prop.id);
    if opts.list {
        for j in &jobs {
            println!("{}", j.name);
        }
        std::process::exit(0);
    }
    let t0 = Instant::now();
    install_panic_hook();

    // watchdog: a hang or runaway budget is "inconclusive", never a violation. It fires when the whole
    // run exceeds its limit or when ONE case has been evaluating for longer than any legitimate case
    // can (cases take milliseconds to about a second). Violations of jobs that finished before are
    // still reported (exit 1); the hung part stays undecided.
    let limit_s: u64 = std::env::var("VERIF_WATCHDOG_S").ok().and_then(|s| s.parse().ok()).unwrap_or(match opts.tier {
        Tier::Quick => 1500,
        Tier::Thorough => 6 * 3600,
    });
    let stuck_s: u64 = std::env::var("VERIF_STUCK_S").ok().and_then(|s| s.parse().ok()).unwrap_or(match opts.tier {
        Tier::Quick => 400,
        Tier::Thorough => 1800,
    });
    let pid = prop.id.to_string();
    let (wd_dir, wd_profile, wd_seed, wd_tier, wd_replay) = (format!("{}/replays/{}", opts.verif_dir, prop.id), opts.profile.clone(), opts.seed, format!("{:?}", opts.tier).to_lowercase(), opts.replay.is_some());
    std::thread::spawn(move || {
        let start = Instant::now();
        loop {
            std::thread::sleep(std::time::Duration::from_secs(2));
            let total = start.elapsed().as_secs();
            let longest = IN_FLIGHT.lock().map(|g| g.iter().map(|(_, _, since)| since.elapsed().as_secs()).max().unwrap_or(0)).unwrap_or(0);
            if total >= limit_s || longest >= stuck_s {
                break;
            }
        }
        println!("INCONCLUSIVE property={} watchdog after {} s", pid, start.elapsed().as_secs());
        if let Ok(g) = IN_FLIGHT.lock() {
            for (_, what, since) in g.iter() {
                let secs = since.elapsed().as_secs();
                if secs >= 20 {
                    println!("  a single case of {} has been running for {} s (a hang in the code under test, or a runaway case)", what, secs);
                }
            }
        }
        let early: Vec<Failure> = EARLY_FAILURES.lock().map(|g| g.clone()).unwrap_or_default();
        if !early.is_empty() && !wd_replay {
            let (viol, _) = write_replays(&pid, &wd_dir, &wd_profile, wd_seed, &wd_tier, &early);
            for (path, msg) in &viol {
                println!("  failure: {}", msg);
                println!("VIOLATION property={} replay={}", pid, path);
            }
            std::process::exit(1);
        }
        std::process::exit(2);
    });

    // reference-model self tests
    let mut selftest_checks = 0u64;
    for (name, st) in selftests {
        match catch(|| st()) {
            Ok(Ok(n)) => selftest_checks += n,
            Ok(Err(e)) => {
                println!("HARNESS-ERROR property={} self-test {} failed: {}", prop.id, name, e);
                std::process::exit(2);
            }
            Err(p) => {
                println!("HARNESS-ERROR property={} self-test {} panicked: {} at {}", prop.id, name, p.msg, p.at);
                std::process::exit(2);
            }
        }
    }

    let replay_dir = format!("{}/replays/{}", opts.verif_dir, prop.id);

    // explicit replay of one file
    if let Some(path) = &opts.replay {
        let (st, skipped) = replay_file(&opts, &jobs, path);
        if skipped {
            println!("replay {}: recorded for the other build profile, skipped in profile {}", path, opts.profile);
            std::process::exit(0);
        }
        for e in &st.harness_errors {
            println!("HARNESS-ERROR property={} {}", prop.id, e);
        }
        if !st.harness_errors.is_empty() || st.replayed == 0 {
            if st.replayed == 0 {
                println!("HARNESS-ERROR property={} replay file {} matched no job/part", prop.id, path);
            }
            std::process::exit(2);
        }
        if let Some(f) = st.failures.first() {
            println!("replayed {}: still fails: {}", path, f.message);
            println!("VIOLATION property={} replay={}", prop.id, path);
            std::process::exit(1);
        }
        println!("replayed {}: passes", path);
        std::process::exit(0);
    }

    let mut violations: Vec<(String, String)> = Vec::new(); // (replay path, message)
    let mut harness_errors: Vec<String> = Vec::new();

    // regression tier: committed replay files of repaired defects / seeded mutants must pass
    let mut regress_run = 0u64;
    let regress_dir = format!("{}/regress", replay_dir);
    if let Ok(rd) = std::fs::read_dir(&regress_dir) {
        let mut files: Vec<_> = rd.filter_map(|e| e.ok()).map(|e| e.path()).filter(|p| p.extension().map_or(false, |x| x == "json")).collect();
        files.sort();
        for p in files {
            let path = p.to_string_lossy().to_string();
            let (st, skipped) = replay_file(&opts, &jobs, &path);
            if skipped {
                continue;
            }
            regress_run += st.replayed;
            harness_errors.extend(st.harness_errors.iter().cloned());
            if st.replayed == 0 {
                harness_errors.push(format!("regression replay {} matched no job/part", path));
            }
            if let Some(f) = st.failures.first() {
                violations.push((path.clone(), format!("regression replay fails again: {}", f.message)));
            }
        }
    }

    // generated search
    let mut stats = run_jobs(&opts, &jobs, None);
    harness_errors.extend(stats.harness_errors.drain(..));

    let (viol, errs) = write_replays(prop.id, &replay_dir, &opts.profile, opts.seed, &format!("{:?}", opts.tier).to_lowercase(), &stats.failures);
    violations.extend(viol);
    harness_errors.extend(errs);

    let timed_out = TIMED_OUT.load(std::sync::atomic::Ordering::SeqCst);
    if timed_out > 0 {
        harness_errors.push(format!("{} call(s) into the code under test did not return within their time box (or were skipped after three such time-outs): those cases are undecided (a hang in the code under test, or an overloaded machine)", timed_out));
    }

    // vacuity guards (depend only on generators / reference side)
    let distinct = stats.hashes.len() as u64;
    if opts.filter.is_none() {
        if distinct < 2 {
            harness_errors.push(format!("vacuous run: only {} distinct non-trivial cases", distinct));
        }
        if stats.excluded_known * 2 > stats.cases.max(1) {
            harness_errors.push("known-finding exclusions removed more than half of the cases".into());
        }
    }

    // evidence (partial, for this profile; ./check merges profiles)
    // keep a spread of samples: at most one per (job) first, then fill up
    let mut samples: Vec<Value> = Vec::new();
    let mut seen_jobs = HashSet::new();
    // prefer compact samples (small configurations are easier to read); ordering is deterministic
    stats.samples.sort_by_key(|s| (s.to_string().len(), s.to_string()));
    for s in &stats.samples {
        if samples.len() >= 40 {
            break;
        }
        let key = format!("{}", s["part"]);
        if seen_jobs.insert(key) {
            samples.push(s.clone());
        }
    }
    for s in &stats.samples {
        if samples.len() >= 40 {
            break;
        }
        if !samples.contains(s) {
            samples.push(s.clone());
        }
    }
    let wall = t0.elapsed().as_secs_f64();
    let ev = json!({
        "property_id": prop.id,
        "tier": format!("{:?}", opts.tier).to_lowercase(),
        "seed": opts.seed,
        "level": "exploration",
        "coverage": {
            "evaluations": stats.cases,
            "distinct_nontrivial": distinct,
            "nontrivial_total": stats.nontrivial,
            "rule": prop.rule,
            "samples": samples,
            "oracle_comparisons": stats.cmps,
            "labels": stats.labels,
            "cases_per_job": stats.per_job,
            "jobs": stats.per_job.len(),
            "excluded_known": stats.excluded_known,
            "exhaustive_parts": stats.exhaustive_parts,
            "exhaustive": false,
            "profiles": [opts.profile],
            "regression_replays": regress_run,
            "selftest_checks": selftest_checks,
        },
        "assumptions": prop.assumptions,
        "wall_s": wall,
        "violations": violations.len(),
        "harness_errors": harness_errors,
    });
    if let Some(out) = &opts.out {
        if let Some(dir) = std::path::Path::new(out).parent() {
            let _ = std::fs::create_dir_all(dir);
        }
        if let Err(e) = std::fs::write(out, serde_json::to_string_pretty(&ev).unwrap()) {
            println!("HARNESS-ERROR property={} cannot write evidence {}: {}", prop.id, out, e);
            std::process::exit(2);
        }
    }

    println!(
        "[{} {} {:?} seed={}] cases={} comparisons={} distinct_nontrivial={} jobs={} regress={} wall={:.1}s",
        prop.id, opts.profile, opts.tier, opts.seed, stats.cases, stats.cmps, distinct, stats.per_job.len(), regress_run, wall
    );
    for (path, msg) in &violations {
        println!("  failure: {}", msg);
        println!("VIOLATION property={} replay={}", prop.id, path);
    }
    for e in &harness_errors {
        println!("HARNESS-ERROR property={} {}", prop.id, e);
    }
    if !violations.is_empty() {
        std::process::exit(1);
    }
    if !harness_errors.is_empty() {
        std::process::exit(2);
    }
    std::process::exit(0);
}

fn truncate(s: &str, n: usize) -> String {
    if s.len() <= n {
        s.to_string()
    } else {
        let mut k = n;
        while !s.is_char_boundary(k) {
            k -= 1;
        }
        format!("{}…", &s[..k])
    }
}

/// returns (stats, skipped_because_of_profile)
fn replay_file(opts: &Opts, jobs: &[Job], path: &str) -> (Stats, bool) {
    let mut st = Stats::default();
    let text = match std::fs::read_to_string(path) {
        Ok(t) => t,
        Err(e) => {
            st.harness_errors.push(format!("cannot read replay file {}: {}", path, e));
            return (st, false);
        }
    };
    let doc: Value = match serde_json::from_str(&text) {
        Ok(d) => d,
        Err(e) => {
            st.harness_errors.push(format!("cannot parse replay file {}: {}", path, e));
            return (st, false);
        }
    };
    if doc["property"].as_str() != Some(&opts.property) {
        st.harness_errors.push(format!("replay file {} is for property {}", path, doc["property"]));
        return (st, false);
    }
    if let Some(p) = doc["profile"].as_str() {
        if p != "any" && p != opts.profile {
            return (st, true);
        }
    }
    let job = doc["job"].as_str().unwrap_or("").to_string();
    let part = doc["part"].as_str().unwrap_or("").to_string();
    (run_jobs(opts, jobs, Some((job, part, doc["case"].clone()))), false)
}
