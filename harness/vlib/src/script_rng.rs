//! `ScriptRng`: an RNG whose output stream is a script chosen by the generator (then zeros, so
//! rejection loops terminate: the all-zero word is always accepted), recording how many bytes
//! were consumed. The property quantifies over RNG output streams; the script IS the stream.

use rand_core::{impls, Error, RngCore};

#[derive(Clone, Debug)]
pub struct ScriptRng {
    script: Vec<u8>,
    pos: usize,
}

impl ScriptRng {
    pub fn new(script: &[u8]) -> ScriptRng {
        ScriptRng { script: script.to_vec(), pos: 0 }
    }
    /// number of bytes drawn so far (beyond the script: zeros)
    pub fn consumed(&self) -> usize {
        self.pos
    }
}

impl RngCore for ScriptRng {
    fn next_u32(&mut self) -> u32 {
        impls::next_u32_via_fill(self)
    }
    fn next_u64(&mut self) -> u64 {
        impls::next_u64_via_fill(self)
    }
    fn fill_bytes(&mut self, dest: &mut [u8]) {
        for b in dest.iter_mut() {
            *b = self.script.get(self.pos).copied().unwrap_or(0);
            self.pos += 1;
        }
    }
    fn try_fill_bytes(&mut self, dest: &mut [u8]) -> Result<(), Error> {
        self.fill_bytes(dest);
        Ok(())
    }
}
