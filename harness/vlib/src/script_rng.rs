//! `ScriptRng`: an RNG whose output stream is a byte script chosen by the generator, followed by a
//! fixed pseudo-random tail (a pure function of the position, see `stream_byte`), recording how
//! many bytes were consumed. The property quantifies over RNG output streams; script + tail IS
//! the stream. The tail is pseudo-random rather than constant so that a rejection loop terminates
//! for every sampler that accepts a positive fraction of the words, whichever words those are
//! (a constant tail would hang a sampler that happens to reject that one word - which the
//! property allows). A sampler that has not returned after `TAIL_CAP` tail bytes is reported by a
//! panic whose message starts with `SAMPLER-STUCK` (classified as behaviour of the code under
//! test, not as a harness error).

use rand_core::{impls, Error, RngCore};

/// tail bytes after which the sampler is declared stuck (>= 128 words at every tested width)
pub const TAIL_CAP: usize = 1 << 17;

#[derive(Clone, Debug)]
pub struct ScriptRng {
    script: Vec<u8>,
    pos: usize,
}

fn splitmix(mut x: u64) -> u64 {
    x = x.wrapping_add(0x9e37_79b9_7f4a_7c15);
    x = (x ^ (x >> 30)).wrapping_mul(0xbf58_476d_1ce4_e5b9);
    x = (x ^ (x >> 27)).wrapping_mul(0x94d0_49bb_1331_11eb);
    x ^ (x >> 31)
}

/// byte `pos` of the stream made of `script` followed by the fixed tail
pub fn stream_byte(script: &[u8], pos: usize) -> u8 {
    match script.get(pos) {
        Some(b) => *b,
        None => {
            let j = (pos - script.len()) as u64;
            (splitmix(0x5eed_0000 + j / 8) >> (8 * (j % 8))) as u8
        }
    }
}

impl ScriptRng {
    pub fn new(script: &[u8]) -> ScriptRng {
        ScriptRng { script: script.to_vec(), pos: 0 }
    }
    /// number of bytes drawn so far (script, then tail)
    pub fn consumed(&self) -> usize {
        self.pos
    }
}

impl RngCore for ScriptRng {
    fn next_u32(&mut self) -> u32 {
        impls::next_u32_via_fill(self)
    }
    fn next_u64(&mut self) -> u64 {
        impls::next_u64_via_fill(self)
    }
    fn fill_bytes(&mut self, dest: &mut [u8]) {
        for b in dest.iter_mut() {
            *b = stream_byte(&self.script, self.pos);
            self.pos += 1;
        }
        if self.pos > self.script.len() + TAIL_CAP {
            panic!("SAMPLER-STUCK: {} bytes drawn beyond the {}-byte script (pseudo-random words) without returning", self.pos - self.script.len(), self.script.len());
        }
    }
    fn try_fill_bytes(&mut self, dest: &mut [u8]) -> Result<(), Error> {
        self.fill_bytes(dest);
        Ok(())
    }
}

pub fn self_test() -> Result<u64, String> {
    let s = [1u8, 2, 3];
    let mut r = ScriptRng::new(&s);
    let mut buf = [0u8; 40];
    r.fill_bytes(&mut buf);
    if buf[..3] != s || r.consumed() != 40 {
        return Err("script prefix / consumed".into());
    }
    for (i, b) in buf.iter().enumerate() {
        if *b != stream_byte(&s, i) {
            return Err(format!("stream_byte mismatch at {i}"));
        }
    }
    // the tail is varied: among the first 64 tail bytes at least 32 distinct values' worth of bits
    let distinct: std::collections::HashSet<u8> = (3..67).map(|i| stream_byte(&s, i)).collect();
    if distinct.len() < 24 {
        return Err("tail not varied".into());
    }
    let mut r2 = ScriptRng::new(&s);
    let a = r2.next_u64();
    let mut r3 = ScriptRng::new(&s);
    let mut b8 = [0u8; 8];
    r3.fill_bytes(&mut b8);
    if a != u64::from_le_bytes(b8) {
        return Err("next_u64 is not the little-endian read of the stream".into());
    }
    Ok(4)
}
