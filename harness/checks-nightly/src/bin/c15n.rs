//! C15 (nightly half) — to_{be,le,ne}_bytes / from_{be,le,ne}_bytes are exact inverses producing
//! the two's-complement bytes. These methods exist only with bnum's `nightly` feature
//! (generic_const_exprs), so they are instantiated per concrete configuration by a macro.
#![allow(incomplete_features)]
#![feature(generic_const_exprs)]

use vlib::gen::{self, bytes_from_digits, digits_from_bytes, Shape};
use vlib::runner::{self, Job, Obs, Property};
use vlib::{ck, Pat};

const QUICK: u32 = 2000;
const FACTOR: u32 = 20;

macro_rules! cfg_jobs {
    ($jobs:ident; $($U:ident, $I:ident, $D:ty, $N:literal, $name:literal);* $(;)?) => {$(
        {
            type U = bnum::$U<$N>;
            type I = bnum::$I<$N>;
            const BYTES: usize = ($N * <$D>::BITS as usize) / 8;
            let sh = Shape::new(($N * <$D>::BITS) as u32, <$D>::BITS);
            $jobs.push(Job::new(concat!("nightly/bytes@", $name), move |ctx| {
                ctx.run("bytes", ctx.budget(QUICK, FACTOR), gen::pattern(sh), |p: &Pat, obs: &mut Obs| {
                    obs.nt_if(p.0.iter().rev().ne(p.0.iter()));
                    let le: Vec<u8> = p.0.clone();
                    let be: Vec<u8> = p.0.iter().rev().cloned().collect();
                    let arr: [u8; BYTES] = le.clone().try_into().map_err(|_| "pattern length")?;
                    let arr_be: [u8; BYTES] = be.clone().try_into().map_err(|_| "pattern length")?;
                    // unsigned
                    let u = U::from_digits(digits_from_bytes::<$D, $N>(&p.0));
                    ck!("U::to_le_bytes = two's-complement bytes, least significant first", u.to_le_bytes().to_vec(), le.clone());
                    ck!("U::to_be_bytes = two's-complement bytes, most significant first", u.to_be_bytes().to_vec(), be.clone());
                    if cfg!(target_endian = "little") {
                        ck!("U::to_ne_bytes = to_le_bytes on a little-endian target", u.to_ne_bytes().to_vec(), le.clone());
                        ck!("U::from_ne_bytes = from_le_bytes on a little-endian target", bytes_from_digits::<$D>(&U::from_ne_bytes(arr).digits()[..]), le.clone());
                    }
                    ck!("U::from_le_bytes", bytes_from_digits::<$D>(&U::from_le_bytes(arr).digits()[..]), le.clone());
                    ck!("U::from_be_bytes", bytes_from_digits::<$D>(&U::from_be_bytes(arr_be).digits()[..]), le.clone());
                    ck!("U::from_be_bytes(to_be_bytes(x)) == x", U::from_be_bytes(u.to_be_bytes()) == u, true);
                    ck!("U::from_le_bytes(to_le_bytes(x)) == x", U::from_le_bytes(u.to_le_bytes()) == u, true);
                    ck!("U::from_ne_bytes(to_ne_bytes(x)) == x", U::from_ne_bytes(u.to_ne_bytes()) == u, true);
                    ck!("U::to_be_bytes(from_be_bytes(b)) == b", U::from_be_bytes(arr).to_be_bytes().to_vec(), le.clone());
                    ck!("U::to_le_bytes(from_le_bytes(b)) == b", U::from_le_bytes(arr).to_le_bytes().to_vec(), le.clone());
                    // signed
                    let i = I::from_bits(u);
                    ck!("I::to_le_bytes", i.to_le_bytes().to_vec(), le.clone());
                    ck!("I::to_be_bytes", i.to_be_bytes().to_vec(), be.clone());
                    if cfg!(target_endian = "little") {
                        ck!("I::to_ne_bytes", i.to_ne_bytes().to_vec(), le.clone());
                        ck!("I::from_ne_bytes", bytes_from_digits::<$D>(&I::from_ne_bytes(arr).to_bits().digits()[..]), le.clone());
                    }
                    ck!("I::from_le_bytes", bytes_from_digits::<$D>(&I::from_le_bytes(arr).to_bits().digits()[..]), le.clone());
                    ck!("I::from_be_bytes", bytes_from_digits::<$D>(&I::from_be_bytes(arr_be).to_bits().digits()[..]), le.clone());
                    ck!("I::from_be_bytes(to_be_bytes(x)) == x", I::from_be_bytes(i.to_be_bytes()) == i, true);
                    ck!("I::from_le_bytes(to_le_bytes(x)) == x", I::from_le_bytes(i.to_le_bytes()) == i, true);
                    ck!("I::to_be_bytes(from_be_bytes(b)) == b", I::from_be_bytes(arr).to_be_bytes().to_vec(), le.clone());
                    Ok(())
                });
            }));
        }
    )*};
}

fn main() {
    let mut jobs: Vec<Job> = Vec::new();
    cfg_jobs! { jobs;
        BUint, BInt, u64, 128, "D64x128"; BUint, BInt, u64, 17, "D64x17"; BUint, BInt, u64, 5, "D64x5"; BUint, BInt, u64, 3, "D64x3";
        BUint, BInt, u64, 2, "D64x2"; BUint, BInt, u64, 1, "D64x1";
        BUintD32, BIntD32, u32, 16, "D32x16"; BUintD32, BIntD32, u32, 10, "D32x10"; BUintD32, BIntD32, u32, 3, "D32x3"; BUintD32, BIntD32, u32, 2, "D32x2"; BUintD32, BIntD32, u32, 1, "D32x1";
        BUintD16, BIntD16, u16, 20, "D16x20"; BUintD16, BIntD16, u16, 12, "D16x12"; BUintD16, BIntD16, u16, 3, "D16x3"; BUintD16, BIntD16, u16, 2, "D16x2"; BUintD16, BIntD16, u16, 1, "D16x1";
        BUintD8, BIntD8, u8, 40, "D8x40"; BUintD8, BIntD8, u8, 17, "D8x17"; BUintD8, BIntD8, u8, 5, "D8x5"; BUintD8, BIntD8, u8, 3, "D8x3"; BUintD8, BIntD8, u8, 2, "D8x2"; BUintD8, BIntD8, u8, 1, "D8x1";
    }
    runner::main(
        Property {
            id: "C15",
            rule: "nightly half of C15: structured W-bit patterns for 22 configurations (all four digit types, 8..8192 bits incl. 24, 40, 48, 96, 136, 320); to_{be,le,ne}_bytes must be the big-/little-endian two's-complement bytes of the pattern, from_* the inverse, both compositions the identity, ne = le on this target. NON-TRIVIAL: non-palindromic pattern.",
            assumptions: &["built with cargo +nightly and bnum feature `nightly` (generic_const_exprs)"],
        },
        jobs,
        &[("refint", vlib::refint::self_test)],
    );
}
