import json,sys,subprocess,collections
B=sys.argv[1]
prof=sys.argv[2]; objs=sys.argv[3:]
cmd=[B+'/llvm-cov','export','-instr-profile='+prof,'--ignore-filename-regex=(\\.cargo|rustc|/verif/)']
for o in objs: cmd+=['-object',o]
d=json.loads(subprocess.run(cmd,capture_output=True,text=True).stdout)
# function-level regions: a source region is covered if ANY instantiation executed it
cov=collections.defaultdict(int)
for fn in d['data'][0]['functions']:
    files=fn['filenames']
    for r in fn['regions']:
        l1,c1,l2,c2,cnt,fid,efid,kind=r
        if kind!=0: continue
        cov[(files[fid],l1,c1,l2,c2)]+=cnt
miss=sorted(k for k,v in cov.items() if v==0 and k[0].startswith('/repo/src'))
srcs={}
for f,l1,c1,l2,c2 in miss:
    if f not in srcs: srcs[f]=open(f).read().split('\n')
    line=srcs[f][l1-1]
    print("%s:%d:%d-%d:%d  %s"%(f.replace('/repo/src/',''),l1,c1,l2,c2,line.strip()[:110]))
print(len(miss),'missed regions of',sum(1 for k in cov if k[0].startswith('/repo/src')))
