#!/usr/bin/env python3
"""Apply one seeded change to /repo, run the check(s), undo it. Development-time tool.

usage: tools/try_seeded.py <dir with patch.diff + meta.json> [--props C01,C16] [--tier quick|thorough] [--seed N]
Output goes to VERIF_OUT=/tmp/verif-seeded-out so that committed evidence is not touched."""
import json, os, subprocess, sys, time
d = os.path.abspath(sys.argv[1])
args = sys.argv[2:]
meta = json.load(open(os.path.join(d, "meta.json")))
props = [meta["property"]]
tier, seed = "quick", "0"
i = 0
while i < len(args):
    if args[i] == "--props": props = args[i+1].split(","); i += 1
    elif args[i] == "--tier": tier = args[i+1]; i += 1
    elif args[i] == "--seed": seed = args[i+1]; i += 1
    i += 1
st = subprocess.run(["git", "-C", "/repo", "status", "--short", "--untracked-files=no"], capture_output=True, text=True).stdout.strip()
if st:
    print("refusing: /repo has local changes:\n" + st); sys.exit(3)
subprocess.run(["git", "-C", "/repo", "apply", os.path.join(d, "patch.diff")], check=True)
results = {}
try:
    env = dict(os.environ, VERIF_OUT="/tmp/verif-seeded-out", VERIF_SEED=seed)
    for p in props:
        t = time.time()
        r = subprocess.run(["/verif/check", p, tier], env=env, capture_output=True, text=True)
        lines = [l for l in r.stdout.splitlines() if l.startswith(("VIOLATION", "  failure", "HARNESS-ERROR", "INCONCLUSIVE"))]
        results[p] = {"exit": r.returncode, "wall_s": round(time.time() - t, 1), "violations": sum(l.startswith("VIOLATION") for l in lines), "first": [l[:400] for l in lines[:4]]}
finally:
    subprocess.run(["git", "-C", "/repo", "checkout", "--", "."], check=True)
print(json.dumps({"seeded": os.path.basename(d), "tier": tier, "seed": seed, "results": results}, indent=1))
