#!/bin/bash
# Development-time audit: which regions of /repo/src does the QUICK tier of all 20 checks execute?
# Builds the check binaries with -C instrument-coverage (nightly, separate target directory), runs
# every binary at a tenth of the quick budget (deterministic sweeps are not scaled) with two worker
# threads per process (more threads thrash the shared counters: C01 took 20 min instead of 8 s),
# merges the profiles and lists every source region of bnum that NO instantiation in NO check
# executed. Result of the run recorded in DESIGN.md 8.8: 109 of 5339 regions, all of them dead code,
# panic-message text, I/O error arms or arms outside the properties.
# usage: tools/coverage.sh [workdir]   (default /tmp/cov; ~2 min build + ~15 min run; remove it afterwards)
set -e
W=${1:-/tmp/cov}; mkdir -p $W/prof $W/out
B=$(dirname $(find ~/.rustup/toolchains/nightly-x86_64-unknown-linux-gnu -name llvm-cov | head -1))
cd /verif/harness
CARGO_NET_OFFLINE=true RUSTFLAGS="-C instrument-coverage -Awarnings" cargo +nightly build -p checks --target-dir $W/target
cd $W
for i in $(seq -w 1 20); do b=c$i
  ( LLVM_PROFILE_FILE=$W/prof/$b-%p.profraw VERIF_THREADS=2 VERIF_SCALE=0.1 VERIF_DIR=$W/out ./target/debug/$b --tier quick --seed 0 --out $W/out/$b.json > $W/out/$b.log 2>&1 ) &
done
wait
$B/llvm-profdata merge -sparse prof/*.profraw -o all.profdata
python3 /verif/tools/coverage_regions.py $B all.profdata $(for i in $(seq -w 1 20); do echo target/debug/c$i; done) | tee regions.txt | tail -1
