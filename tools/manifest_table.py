NOT_APPLICABLE = {}
COMMON_NOTE = ("Trusted base: bnum's digits()/from_digits()/to_bits()/from_bits() as observation channel; the harness's reference "
               "integer (self-tested against u128/i128 and python-generated vectors on every run); 36 (digit type, N) configurations "
               "from 8 to 8192 bits stand for 'every N'; x86-64 little-endian only. Generated search explores, it does not prove absence.")
prop("C01", "property-based testing (proptest) against an exact reference-integer oracle; exhaustive at 8 bits",
     "Generated search over structured W-bit operand patterns (carry chains across digit boundaries, overflow by one, MIN/MAX edges) for all 72 types; every overflow mode of add/sub/neg/abs/carrying/borrowing/abs_diff/midpoint compared with exact arithmetic; the 8-bit configuration is enumerated completely. Exploration is the right level: the property is a pure-function equality with a cheap exact oracle, so millions of adversarially structured cases per run are affordable.",
     COMMON_NOTE)
prop("C02", "property-based testing (proptest) with edge-of-overflow and positional operand construction against an exact reference product; exhaustive at 8 bits",
     "Generated search for all 72 types: structured operands, products constructed to overflow by exactly one unit / one bit, single-digit operands placed around the i+j = N column boundary; overflowing/checked/wrapping/saturating/strict/unchecked mul, widening_mul, carrying_mul and a chained 2x2-word product are compared with the exact product. Exploration is the right level: cheap exact oracle, adversarial construction reaches the thin overflow edge directly.",
     COMMON_NOTE)
prop("C03", "property-based testing (proptest) with backwards-constructed dividends and Algorithm-D stress families against a shift-subtract reference division; exhaustive at 8 bits",
     "Generated search for all 72 types over divisor shapes (every significant-digit count and normalisation shift), n = q*d + r constructions, Knuth-D stress families scaled to each digit base (a reference-side shadow run counts add-back / qhat corrections: all four digit sizes reach add-back in every run), all sign combinations, MIN/-1 and zero divisors; all division/remainder forms and rounding variants compared with an independent reference and re-derived via n = q*d + r.",
     COMMON_NOTE + " The shadow Algorithm D run is used for labelling only.")
prop("C05", "property-based testing (proptest) over structured shift/rotate amounts against reference-integer shifts and an explicit bit permutation; exhaustive at 8 bits",
     "Generated search for all 72 types: every shift form (checked/overflowing/wrapping/strict/unchecked/unbounded, << >> operators and const twins) against (x*2^s) mod 2^W and floor(x/2^s); rotations against an explicit permutation of the W-bit pattern for every width incl. non-powers of two, plus inverse laws. Found and repaired the rotate amount-masking defect (known_findings.json).",
     COMMON_NOTE)
prop("C06", "property-based testing (proptest) against bit-vector loops; exhaustive at 8 and 16 bits",
     "Generated search for all 72 types with patterns built from digit-aligned runs of 0/1 bits (the early-exit branches of the scanning loops) and power-of-two neighbourhoods; logic operators and const twins, all counts, bits/bit/set_bit/power_of_two, is_power_of_two, next_power_of_two forms, swap_bytes/reverse_bits and their involutions against straight loops over the bit vector. 8-bit and both 16-bit configurations enumerated completely for unary operations.",
     COMMON_NOTE)
prop("C07", "property-based testing (proptest) with comparison-directed pair construction against the order of reference integers; exhaustive at 8 bits",
     "Generated search for all 72 types over pairs that are equal, differ in exactly one digit, share leading digits, differ only in the sign bit or by +-1; every comparison operator, Ord/PartialOrd method and const twin, min/max/clamp, Eq iff identical digits, equal hashes for values reached via different computations, signum/is_positive/is_negative.",
     COMMON_NOTE)
prop("C08", "property-based testing (proptest) with overflow-threshold construction against capped exact and modular reference exponentiation / repeated-multiplication logarithm; exhaustive slices at 8 bits",
     "Generated search for all 72 types: (base, exponent) pairs at the overflow threshold (floor(maxbits/log2|a|)+-2, k-th roots of the bound +-1), exponents up to u32::MAX, negative bases with odd/even exponents; ilog/ilog2/ilog10 at exact powers b^k and b^k+-1 for small, power-of-two, multi-digit and maximal bases, invalid arguments for the checked forms; dbg build catches internal overflow panics in the iilog recursion.",
     COMMON_NOTE)
prop("C09", "property-based testing (proptest) over all ordered type pairs of a 32-type sub-table plus primitives, against reduction modulo 2^(target BITS) in the reference integer; exhaustive for 8/16-bit primitive sources",
     "Generated search over 1024 bnum x bnum pairs (all four digit types on both sides), 768 bnum<->primitive pairs, bool/char sources, 144 primitive<->primitive impls and the reinterpreting casts on all 36 configurations, with sources built to have sign extension crossing digit boundaries and set bits above the target width; panics are violations.",
     COMMON_NOTE)
prop("C13", "property-based testing (proptest) over all ordered type pairs with values embedded at the target's bounds, against the reference integer's range test",
     "Generated search over TryFrom<bnum> for 12 primitives, BTryFrom for 1024 ordered bnum pairs (+ large configurations), From/TryFrom from every primitive/bool/char into every sufficiently wide type of the 72, and the digit-array API; Ok <=> representable with equal value, never panics.",
     COMMON_NOTE)
prop("C10", "grammar-based property testing (proptest) with an outcome-set oracle (parse model validated against the primitives); every radix in every run",
     "Generated search for all 72 types: sign/zeros/digits strings for radix 2..=36 and digit slices for radix 2..=256 built from boundary values and capacity-length digit strings, redundant leading zeros up to twice the capacity, one foreign byte injected at start/middle/end (short and long), lone/double signs, invalid UTF-8, out-of-range radices. The oracle returns the set of outcomes the property allows, so long invalid strings never cause false alarms. Found and repaired the radix 2/4/16 leading-zero defect.",
     COMMON_NOTE + " The parse model is compared with u8/i8/u64/i64::from_str_radix on a fixed corpus at start-up.")
