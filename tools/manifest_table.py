NOT_APPLICABLE = {}
COMMON_NOTE = ("Trusted base: bnum's digits()/from_digits()/to_bits()/from_bits() as observation channel; the harness's reference "
               "integer (self-tested against u128/i128 and python-generated vectors on every run); 36 (digit type, N) configurations "
               "from 8 to 8192 bits stand for 'every N'; x86-64 little-endian only. Generated search explores, it does not prove absence.")
prop("C01", "property-based testing (proptest) against an exact reference-integer oracle; exhaustive at 8 bits",
     "Generated search over structured W-bit operand patterns (carry chains across digit boundaries, overflow by one, MIN/MAX edges) for all 72 types; every overflow mode of add/sub/neg/abs/carrying/borrowing/abs_diff/midpoint compared with exact arithmetic; the 8-bit configuration is enumerated completely. Exploration is the right level: the property is a pure-function equality with a cheap exact oracle, so millions of adversarially structured cases per run are affordable.",
     COMMON_NOTE)
