#!/bin/bash
# usage: confirm_wt.sh <suffix> <wt numbers...>
suf=$1; shift
declare -A WT=( [C01]=1 [C06]=1 [C11]=1 [C16]=1 [C02]=2 [C07]=2 [C12]=2 [C17]=2 [C03]=3 [C08]=3 [C13]=3 [C18]=3 [C04]=4 [C09]=4 [C14]=4 [C19]=4 [C05]=5 [C10]=5 [C15]=5 [C20]=5 )
for w in "$@"; do
  ( for p in "${!WT[@]}"; do
      if [ "${WT[$p]}" = "$w" ] && [ -d /tmp/seeded-out/$p-$suf ]; then
        /verif/tools/confirm_seeded.sh /tmp/seeded-out/$p-$suf /tmp/wt-a$w > /dev/null 2>&1
      fi
    done; echo "wt$w done" >> /tmp/seeded-out/confirm-$suf.progress ) &
done
wait
