#!/usr/bin/env python3
"""Markdown rows for seeded/RESULTS.md from seeded/<id>/meta.json and a try_seeded jsonl file.
usage: tools/results_table.py <suffix> <try.jsonl> [second try.jsonl after additions]"""
import json, os, sys
HERE = os.path.dirname(os.path.dirname(os.path.abspath(__file__)))
suf = sys.argv[1]
def load(p):
    r = {}
    for l in open(p):
        if l.startswith("{"):
            d = json.loads(l); r[d["seeded"]] = d["results"]
    return r
first = load(sys.argv[2]); second = load(sys.argv[3]) if len(sys.argv) > 3 else {}
def clip(s, n): s = " ".join(str(s).split()).replace("|", "/"); return s if len(s) <= n else s[:n - 1] + "…"
print("| id | what was changed | needs | quick check | exit | failing jobs | note |")
print("|---|---|---|---|---|---|---|")
for i in range(1, 21):
    sid = "C%02d-%s" % (i, suf); d = os.path.join(HERE, "seeded", sid)
    if not os.path.isdir(d): continue
    m = json.load(open(os.path.join(d, "meta.json")))
    res = first.get(sid, {})
    prop = m["property"]; r = res.get(prop, {})
    note = ""
    if r.get("exit") != 1:
        r2 = second.get(sid, {}).get(prop, {})
        note = "**not reported as the check stood** (exit %s)" % r.get("exit")
        if r2: note += "; after the additions: exit %s, %s failing jobs" % (r2.get("exit"), r2.get("violations"))
    print("| %s | %s | %s | %s | %s | %s | %s |" % (sid, clip(m.get("summary", ""), 260), clip(m.get("needs", ""), 200), prop, r.get("exit"), r.get("violations"), note))
