#!/bin/bash
# usage: confirm_pairs.sh <suffix> <wt> <props...>
suf=$1; w=$2; shift 2
for p in "$@"; do [ -d /tmp/seeded-out/$p-$suf ] && /verif/tools/confirm_seeded.sh /tmp/seeded-out/$p-$suf /tmp/wt-a$w > /dev/null 2>&1; done
echo "wt$w done" >> /tmp/seeded-out/confirm-$suf.progress
