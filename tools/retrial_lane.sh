#!/bin/bash
# usage: lane.sh <lane number> <out.jsonl> <seeded ids...>   - re-runs seeded changes against the CURRENT checks in a private worktree + shadow
n=$1; out=$2; shift 2
wt=/tmp/wt-l$n
[ -d $wt ] || git -C /repo worktree add --detach $wt HEAD -q
for id in "$@"; do
  d=/verif/seeded/$id
  p=$(python3 -c "import json;print(json.load(open('$d/meta.json'))['property'])")
  cd $wt && git checkout -q -- . && git apply $d/patch.diff 2>/dev/null || { echo "{\"seeded\":\"$id\",\"prop\":\"$p\",\"exit\":-1,\"violations\":0}" >> $out; continue; }
  res=$(cd /verif && VERIF_REPO=$wt VERIF_OUT=/tmp/verif-lane$n-out VERIF_SEED=0 ./check $p quick 2>&1); rc=$?
  v=$(echo "$res" | grep -c '^VIOLATION')
  echo "{\"seeded\":\"$id\",\"prop\":\"$p\",\"exit\":$rc,\"violations\":$v}" >> $out
done
cd $wt && git checkout -q -- .
echo "{\"lane\":$n,\"done\":true}" >> $out
