#!/usr/bin/env python3
"""Writes /verif/MANIFEST.json from the table below (development-time tool)."""
import json, os
HERE = os.path.dirname(os.path.dirname(os.path.abspath(__file__)))
BASELINE_OFF = "cd /repo && cargo test --workspace --no-fail-fast --offline"

# id -> (technique, level text, level note)
BUILT = {}
def prop(pid, technique, text, note):
    BUILT[pid] = (technique, text, note)

exec(open(os.path.join(HERE, "tools", "manifest_table.py")).read())

ALL = ["C%02d" % i for i in range(1, 21)]
checks = []
for pid in ALL:
    if pid not in BUILT:
        continue
    technique, text, note = BUILT[pid]
    checks.append({
        "property_id": pid,
        "quick_cmd": "./check %s quick" % pid,
        "thorough_cmd": "./check %s thorough" % pid,
        "evidence_file": "/verif/evidence/%s.json" % pid,
        "replay_cmd_template": "./check %s --replay {path}" % pid,
        "engine": "proptest-runner" + (" + cargo-fuzz/libFuzzer (thorough tier)" if pid in ("C03", "C10", "C14", "C16") else ""),
        "level_claimed": {"category": "exploration", "text": text, "design_ref": "DESIGN.md §4 %s" % pid},
        "level_note": note,
        "technique": technique,
    })
manifest = {
    "version": 1,
    "setup_cmd": "./check --setup",
    "hooks": {
        "guard": "bnum_verif",
        "enable": "no source hooks are used: the checks link /repo as an ordinary path dependency (features numtraits, rand; nightly for the *_bytes half of C15) and classify inputs on the reference side",
        "baseline_off_cmd": BASELINE_OFF,
        "source_commits": [],
        "add_only": True,
    },
    "engines": [
        {"name": "proptest-runner", "path": "/verif/harness", "serves_properties": sorted(BUILT),
         "kind_free_text": "property-based testing: proptest 1.11 strategies and shrinking driven by a job runner (one TestRunner per sub-check x configuration, seeded from VERIF_SEED), explicit oracles = independent reference integer / float / formatter / parser models, primitive integers, differential between digit types; exhaustive enumeration of the 8-bit configurations"},
        {"name": "cargo-fuzz/libFuzzer", "path": "/verif/harness/fuzz", "serves_properties": ["C03", "C10", "C14", "C16"],
         "kind_free_text": "coverage-guided fuzzing (cargo +nightly fuzz, libFuzzer, ASan) of four targets: three decode bytes into (configuration, operands / radix + string / float bits) and apply the same oracle as the proptest check inside the target; the fourth (fuzz_prog, C16) is stateful and model-based - it interprets the input as a register-machine program of up to 64 operations and compares, after every instruction, bnum in every digit type of the width with a model on the reference integer; thorough tier only, bounded by -runs"},
    ],
    "checks": checks,
    "not_applicable": [{"property_id": p, "reason": NOT_APPLICABLE.get(p, "check not built yet in this round (planned in DESIGN.md §4); not claimed until it exists")} for p in ALL if p not in BUILT],
    "notes": "Exit codes of every command: 0 held, 1 VIOLATION line printed, 2 undecided (harness could not build against the edited tree, watchdog, reference-model self-test failed, fuzz engine failure). known_findings.json lists five repaired defects (status fixed, each a 'fix:' commit in /repo) and no open finding, so no KNOWN-FINDING line is ever printed at present. Quick tier: dbg profile (both profiles for C04 and C17), 2-120 s per property after a 10-60 s incremental rebuild (8-14 min for all twenty); thorough tier: 20x the case counts in both profiles plus libFuzzer campaigns for C03/C10/C14/C16. VERIF_SEED, VERIF_TIER, VERIF_SCALE (case-count multiplier), VERIF_FUZZ_RUNS are honoured. seeded/RESULTS.md lists 304 independently written breaking changes in fourteen rounds and which check reports each (300 by the quick tier of the named check; the four others are the residual described in DESIGN.md section 6), plus five negative controls on which every check is silent.",
}
json.dump(manifest, open(os.path.join(HERE, "MANIFEST.json"), "w"), indent=1)
print("checks:", len(checks), "not_applicable:", len(manifest["not_applicable"]))
