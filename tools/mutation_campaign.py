#!/usr/bin/env python3
"""Development-time sensitivity campaign: generate many small syntactic mutants of bnum, and for each one that still
compiles find out (a) whether the quick checks of the properties anchored in the mutated file report a violation,
and if none does (b) whether bnum's own test suite notices it, and if not (c) whether any of the 20 quick checks does.
Mutants that survive (a)+(b)+(c) are listed for manual review: each is either an equivalent mutant (no observable
behaviour change) or a gap in the checks.

Everything happens in scratch copies under --work (default /tmp/mut); /repo and /verif/evidence are never touched.
Nothing registered in MANIFEST.json depends on this tool.

usage: tools/mutation_campaign.py --n 200 [--workers 3] [--seed 1] [--files src/buint/radix.rs,...] [--work /tmp/mut]
       tools/mutation_campaign.py --list            # just count candidate mutants per file
results: <work>/results.jsonl (one line per mutant) and a summary on stdout.
"""
import argparse, json, os, random, re, shutil, subprocess, sys, threading, time

REPO = "/repo"
VERIF = os.path.dirname(os.path.dirname(os.path.abspath(__file__)))

FILES = """src/buint/bigint_helpers.rs src/buint/cast.rs src/buint/checked.rs src/buint/cmp.rs src/buint/const_trait_fillers.rs
src/buint/consts.rs src/buint/convert.rs src/buint/div.rs src/buint/endian.rs src/buint/fmt.rs src/buint/mask.rs src/buint/mod.rs
src/buint/mul.rs src/buint/numtraits.rs src/buint/ops.rs src/buint/overflowing.rs src/buint/radix.rs src/buint/saturating.rs
src/buint/strict.rs src/buint/wrapping.rs
src/bint/bigint_helpers.rs src/bint/cast.rs src/bint/checked.rs src/bint/cmp.rs src/bint/const_trait_fillers.rs src/bint/consts.rs
src/bint/convert.rs src/bint/endian.rs src/bint/fmt.rs src/bint/mod.rs src/bint/numtraits.rs src/bint/ops.rs src/bint/overflowing.rs
src/bint/radix.rs src/bint/saturating.rs src/bint/strict.rs src/bint/wrapping.rs
src/int/bigint_helpers.rs src/int/cast.rs src/int/checked.rs src/int/cmp.rs src/int/endian.rs src/int/fmt.rs src/int/mod.rs
src/int/numtraits.rs src/int/ops.rs src/int/radix.rs src/int/strict.rs
src/cast/mod.rs src/cast/float/mod.rs src/cast/float/float_from_uint.rs src/cast/float/uint_from_float.rs
src/digit.rs src/helpers.rs src/random.rs src/errors/macros.rs src/errors/parseint.rs src/errors/tryfrom.rs src/types.rs""".split()

ALL = ["C%02d" % i for i in range(1, 21)]
ARITH = ["C01", "C02", "C03", "C05", "C08", "C18"]
BY_BASENAME = {
    "checked.rs": ARITH, "overflowing.rs": ARITH, "wrapping.rs": ARITH, "saturating.rs": ARITH,
    "strict.rs": ARITH + ["C04"], "unchecked.rs": ARITH,
    "ops.rs": ["C17", "C01", "C05", "C06", "C04"],
    "mod.rs": ["C06", "C05", "C01", "C08", "C03", "C07", "C04"],
    "mul.rs": ["C02", "C08"], "div.rs": ["C03", "C11", "C12"],
    "cmp.rs": ["C07", "C17"], "const_trait_fillers.rs": ["C07", "C17", "C01"],
    "radix.rs": ["C10", "C11", "C12"], "fmt.rs": ["C12", "C11"],
    "cast.rs": ["C09", "C14", "C19", "C13"], "convert.rs": ["C13", "C19", "C09"],
    "endian.rs": ["C15"], "numtraits.rs": ["C18", "C19"], "random.rs": ["C20"],
    "consts.rs": ["C16"], "types.rs": ["C16"], "bigint_helpers.rs": ["C01", "C02"],
    "mask.rs": ["C06", "C05", "C20"],
    "digit.rs": ["C01", "C02", "C03", "C10", "C11", "C14", "C20"], "helpers.rs": ["C01", "C02", "C03", "C10", "C14"],
    "macros.rs": ["C04", "C10", "C13"], "parseint.rs": ["C10"], "tryfrom.rs": ["C13"],
    "float_from_uint.rs": ["C14", "C19"], "uint_from_float.rs": ["C14", "C19"],
}

OPS = [  # (name, regex, replacement)
    ("le->lt", r"(?<![<>=!\-])<=(?!=)", "<"), ("ge->gt", r"(?<![<>=!\-])>=(?!=)", ">"),
    ("lt->le", r"(?<=\s)<(?=\s)", "<="), ("gt->ge", r"(?<=\s)>(?=\s)", ">="),
    ("eq->ne", r"(?<![<>=!])==(?!=)", "!="), ("ne->eq", r"!=(?!=)", "=="),
    ("add->sub", r"(?<=\s)\+(?=\s)", "-"), ("sub->add", r"(?<=\s)-(?=\s)", "+"),
    ("mul->add", r"(?<=\s)\*(?=\s)", "+"), ("div->mul", r"(?<=\s)/(?=\s)", "*"), ("rem->div", r"(?<=\s)%(?=\s)", "/"),
    ("and->or", r"&&", "||"), ("or->and", r"\|\|", "&&"),
    ("band->bor", r"(?<=\s)&(?=\s)", "|"), ("bor->band", r"(?<=\s)\|(?=\s)", "&"), ("xor->or", r"(?<=\s)\^(?=\s)", "|"),
    ("shl->shr", r"(?<=\s)<<(?=\s)", ">>"), ("shr->shl", r"(?<=\s)>>(?=\s)", "<<"),
    ("addassign->subassign", r"\+=", "-="), ("subassign->addassign", r"-=", "+="),
    ("true->false", r"\btrue\b", "false"), ("false->true", r"\bfalse\b", "true"),
    ("MAX->MIN", r"\bSelf::MAX\b", "Self::MIN"), ("MIN->MAX", r"\bSelf::MIN\b", "Self::MAX"),
    ("ZERO->ONE", r"\bSelf::ZERO\b", "Self::ONE"), ("ONE->ZERO", r"\bSelf::ONE\b", "Self::ZERO"),
    ("drop-not", r"\bif !", "if "), ("add-not", r"\bif (?![!l])", "if !"),
    ("lit+1", r"(?<![\w.\"'$])(\d+)(?![\w.\"'])", None), ("lit-1", r"(?<![\w.\"'$])([1-9]\d*)(?![\w.\"'])", None),
    ("is_negative-flip", r"\.is_negative\(\)", ".is_positive()"), ("is_zero-not", r"(\w+)\.is_zero\(\)", r"!\1.is_zero()"),
    ("N-1", r"\bN - 1\b", "N - 2"), ("BITS->BITS-1", r"\bSelf::BITS\b(?! -)", "(Self::BITS - 1)"),
    ("digit-BITS", r"\bdigit::\$Digit::BITS\b(?! -)", "(digit::$Digit::BITS - 1)"),
    ("wadd->wsub", r"\.wrapping_add\(", ".wrapping_sub("), ("wsub->wadd", r"\.wrapping_sub\(", ".wrapping_add("),
    ("leading->trailing", r"\.leading_zeros\(\)", ".trailing_zeros()"), ("some-none", r"\breturn None;", "return Some(Self::ZERO);"),
]


def code_lines(path):
    """indices of lines that are library code: not comments / attributes / doc, and not inside #[cfg(test)] items"""
    lines = open(path).read().split("\n")
    # lines inside /* ... */ block comments are not code
    in_block = set()
    depth = 0
    for idx, l in enumerate(lines):
        if depth > 0:
            in_block.add(idx)
        depth += l.count("/*") - l.count("*/")
        if depth > 0 and "/*" in l and not l.strip().startswith("/*"):
            pass
    ok = []
    i = 0
    n = len(lines)
    while i < n:
        s = lines[i].strip()
        if s.startswith("#[cfg(test)]") or s.startswith("#[cfg(all(test"):
            i += 1
            while i < n and (lines[i].strip().startswith("#[") or lines[i].strip().startswith("//")):
                i += 1
            depth = 0
            seen = False
            while i < n:
                t = re.sub(r"//.*", "", lines[i])
                depth += t.count("{") - t.count("}")
                if "{" in t:
                    seen = True
                i += 1
                if (seen and depth <= 0) or (not seen and t.rstrip().endswith(";")):
                    break
            continue
        if i not in in_block and s and not s.startswith("/*") and not s.startswith("//") and not s.startswith("#[") and not s.startswith("#!") and "assert" not in s \
                and not s.startswith("use ") and "doc::" not in s and "#[doc" not in s:
            ok.append(i)
        i += 1
    return lines, ok


def candidates(files):
    out = []
    for f in files:
        p = os.path.join(REPO, f)
        if not os.path.exists(p):
            continue
        lines, ok = code_lines(p)
        for i in ok:
            line = lines[i]
            code = line.split("//")[0]
            for name, rx, rep in OPS:
                for m in re.finditer(rx, code):
                    if rep is None:
                        v = int(m.group(1))
                        if v > 300:
                            continue
                        new = str(v + 1) if name == "lit+1" else str(v - 1)
                        mutated = code[:m.start(1)] + new + code[m.end(1):]
                    else:
                        mutated = code[:m.start()] + m.expand(rep) + code[m.end():]
                    if mutated != code:
                        out.append({"file": f, "line": i + 1, "op": name, "col": m.start(), "old": line, "new": mutated + line[len(code):]})
    return out


def sh(cmd, cwd=None, env=None, timeout=None):
    try:
        p = subprocess.run(cmd, cwd=cwd, env=env, stdout=subprocess.PIPE, stderr=subprocess.STDOUT, text=True, timeout=timeout)
        return p.returncode, p.stdout
    except subprocess.TimeoutExpired as e:
        return 124, (e.stdout or b"").decode() if isinstance(e.stdout, bytes) else (e.stdout or "")


class Worker(threading.Thread):
    def __init__(self, wid, queue, lock, results, args):
        super().__init__()
        self.wid, self.queue, self.lock, self.results, self.args = wid, queue, lock, results, args
        self.dir = os.path.join(args.work, "w%d" % wid)
        self.repo = os.path.join(self.dir, "repo")
        self.env = dict(os.environ, CARGO_NET_OFFLINE="true", CARGO_BUILD_JOBS=str(args.jobs), VERIF_THREADS=str(args.jobs),
                        VERIF_REPO=self.repo, VERIF_SHADOW=os.path.join(self.dir, "shadow"), VERIF_OUT=os.path.join(self.dir, "out"),
                        VERIF_SEED=str(args.check_seed), CARGO_TERM_COLOR="never")

    def setup(self):
        os.makedirs(self.dir, exist_ok=True)
        sh(["rsync", "-a", "--delete", "--exclude", "target", "--exclude", ".git", REPO + "/", self.repo + "/"])

    def run_checks(self, props):
        """returns (first violating property or None, details)"""
        det = {}
        for p in props:
            t = time.time()
            rc, out = sh([os.path.join(VERIF, "check"), p, "quick"], env=self.env, timeout=1500)
            lines = [l for l in out.splitlines() if l.startswith(("VIOLATION", "HARNESS-ERROR", "INCONCLUSIVE"))]
            det[p] = {"exit": rc, "wall_s": round(time.time() - t, 1), "first": [l[:300] for l in lines[:2]]}
            if rc == 1:
                return p, det
            if rc not in (0, 1):
                det[p]["tail"] = out.splitlines()[-8:]
        return None, det

    def run(self):
        self.setup()
        while True:
            with self.lock:
                if not self.queue:
                    return
                m = self.queue.pop(0)
            res = dict(m)
            t0 = time.time()
            path = os.path.join(self.repo, m["file"])
            orig = open(os.path.join(REPO, m["file"])).read()
            lines = orig.split("\n")
            lines[m["line"] - 1] = m["new"]
            open(path, "w").write("\n".join(lines))
            try:
                rc, out = sh(["cargo", "check", "--offline", "--features", "numtraits,rand", "--lib"], cwd=self.repo, env=self.env, timeout=600)
                if rc != 0:
                    res["status"] = "no-compile"
                else:
                    base = os.path.basename(m["file"])
                    rel = ["C14", "C19", "C09"] if m["file"].startswith("src/cast/") else BY_BASENAME.get(base, ALL)
                    hit, det = self.run_checks(rel)
                    res["checks"] = det
                    if hit:
                        res["status"] = "caught"
                        res["caught_by"] = hit
                    else:
                        rc, out = sh(["cargo", "test", "--workspace", "--no-fail-fast", "--offline"], cwd=self.repo, env=self.env, timeout=3000)
                        res["tests_exit"] = rc
                        if rc != 0:
                            res["status"] = "missed-but-tests-fail"
                            res["tests_tail"] = [l for l in out.splitlines() if l.startswith("test result") or "FAILED" in l][-6:]
                        else:
                            rest = [p for p in ALL if p not in rel]
                            hit, det2 = self.run_checks(rest)
                            res["checks"].update(det2)
                            if hit:
                                res["status"] = "caught-elsewhere"
                                res["caught_by"] = hit
                            else:
                                res["status"] = "SURVIVED"
            finally:
                open(path, "w").write(orig)
            res["wall_s"] = round(time.time() - t0, 1)
            with self.lock:
                self.results.write(json.dumps(res) + "\n")
                self.results.flush()
                print("[w%d] %-22s %s:%d %s  (%ss)%s" % (self.wid, res["status"], m["file"], m["line"], m["op"], res["wall_s"],
                                                       " by " + res.get("caught_by", "") if res.get("caught_by") else ""), flush=True)


def main():
    ap = argparse.ArgumentParser()
    ap.add_argument("--n", type=int, default=100)
    ap.add_argument("--workers", type=int, default=3)
    ap.add_argument("--jobs", type=int, default=5)
    ap.add_argument("--seed", type=int, default=1)
    ap.add_argument("--check-seed", type=int, default=0)
    ap.add_argument("--files", default="")
    ap.add_argument("--ops", default="")
    ap.add_argument("--work", default="/tmp/mut")
    ap.add_argument("--list", action="store_true")
    args = ap.parse_args()
    files = args.files.split(",") if args.files else FILES
    cands = candidates(files)
    if args.ops:
        cands = [c for c in cands if c["op"] in args.ops.split(",")]
    if args.list:
        per = {}
        for c in cands:
            per[c["file"]] = per.get(c["file"], 0) + 1
        for f, k in sorted(per.items()):
            print("%5d %s" % (k, f))
        print(len(cands), "candidates")
        return
    rnd = random.Random(args.seed)
    # stratify: round-robin over files so that small files are represented
    byfile = {}
    for c in cands:
        byfile.setdefault(c["file"], []).append(c)
    for v in byfile.values():
        rnd.shuffle(v)
    order = []
    keys = sorted(byfile)
    while len(order) < args.n and any(byfile.values()):
        rnd.shuffle(keys)
        for k in keys:
            if byfile[k] and len(order) < args.n:
                # weight: larger files get proportionally more picks per round
                take = 1 + len(byfile[k]) // 150
                for _ in range(take):
                    if byfile[k] and len(order) < args.n:
                        order.append(byfile[k].pop())
    done = set()
    os.makedirs(args.work, exist_ok=True)
    rp = os.path.join(args.work, "results.jsonl")
    if os.path.exists(rp):
        for l in open(rp):
            r = json.loads(l)
            done.add((r["file"], r["line"], r["op"], r["col"]))
    queue = [m for m in order if (m["file"], m["line"], m["op"], m["col"]) not in done]
    print("candidates=%d selected=%d already-done=%d" % (len(cands), len(order), len(order) - len(queue)), flush=True)
    lock = threading.Lock()
    with open(rp, "a") as results:
        ws = [Worker(i, queue, lock, results, args) for i in range(args.workers)]
        for w in ws:
            w.start()
        for w in ws:
            w.join()
    summary = {}
    for l in open(rp):
        r = json.loads(l)
        summary[r["status"]] = summary.get(r["status"], 0) + 1
    print(json.dumps(summary))


if __name__ == "__main__":
    main()
