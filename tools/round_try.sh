#!/bin/bash
# usage: store_try.sh <suffix> <out.jsonl> <props...>   (props like C02 C07)
suf=$1; out=$2; shift 2
for p in "$@"; do d=/tmp/seeded-out/$p-$suf; n=$p-$suf
  rm -rf /verif/seeded/$n; mkdir -p /verif/seeded/$n/demo/src
  cp $d/patch.diff $d/demo.rs $d/meta.json $d/confirm.log /verif/seeded/$n/
  cp $d/demo/Cargo.toml /verif/seeded/$n/demo/; cp $d/demo/src/main.rs /verif/seeded/$n/demo/src/
  python3 /verif/tools/try_seeded.py /verif/seeded/$n | python3 -c "import json,sys; print(json.dumps(json.load(sys.stdin)))" >> $out
done
echo TRIED-BATCH >> $out
