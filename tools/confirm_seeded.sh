#!/bin/bash
# Confirm a seeded change independently in its scratch worktree:
#   with the patch: crate builds, the unedited test suite passes, the demo fails; without: the demo passes.
# usage: confirm_seeded.sh <seeded dir> <worktree>
d=$1; wt=$2; out=$d/confirm.log
: > $out
cd $wt && git checkout -q -- . && git apply $d/patch.diff || { echo "APPLY-FAILED" >> $out; exit 1; }
cargo build --offline --features numtraits,rand >/dev/null 2>&1 && echo "build(numtraits,rand) with patch: ok" >> $out || echo "build with patch: FAILED" >> $out
cargo test --workspace --no-fail-fast --offline 2>&1 | grep -E "^test result" >> $out
prof=$(python3 -c "import json;print(json.load(open(\"$d/meta.json\")).get(\"demo_profile\",\"debug\"))"); flag=""; [ "$prof" = "release" ] && flag="--release"
( cd $d/demo && cargo run --offline $flag >/dev/null 2>&1; echo "demo ($prof) with patch: exit $?" ) >> $out
git checkout -q -- .
( cd $d/demo && cargo run --offline $flag >/dev/null 2>&1; echo "demo ($prof) without patch: exit $?" ) >> $out
git status --short >> $out
cat $out
