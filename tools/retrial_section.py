import json,os,glob,re
rows=[]
for f in glob.glob('/tmp/lane*.jsonl'):
    for l in open(f):
        if l.startswith('{'):
            r=json.loads(l)
            if 'seeded' in r: rows.append(r)
seen={}
for r in rows:
    if r['seeded'] not in seen or r['exit']==1: seen[r['seeded']]=r
allc=sorted(d for d in os.listdir('/verif/seeded') if d[0]=='C' and d[3]=='-')
done=[c for c in allc if c in seen]
rep=[c for c in done if seen[c]['exit']==1]
notrep=[(c,seen[c]['exit']) for c in done if seen[c]['exit']!=1]
missing=[c for c in allc if c not in seen]
sec='''
## Re-trial of the seeded changes against the final checks

The generator weights, operand families, configuration table and sweeps changed during rounds eight to
fourteen, so the earlier changes were tried again with the checks as committed at the end (quick tier, seed 0;
four parallel lanes, each with its own scratch worktree of /repo and its own shadow build of the harness via
`VERIF_REPO`): **%d of the %d seeded changes were re-tried; %d are reported (exit 1) by the quick tier of the check
of the property named in their `meta.json`; not reported: %s**%s
''' % (len(done), len(allc), len(rep), ', '.join('%s (exit %s)'%x for x in notrep) if notrep else 'none',
      ('; not re-tried for lack of time: '+', '.join(missing)+'.') if missing else '.')
s=open('/verif/seeded/RESULTS.md').read()
s=re.sub(r'\n## Re-trial of the seeded changes against the final checks\n.*?(?=\nSummary: )','',s,flags=re.S)
i=s.index('\nSummary: 304 seeded changes')
s=s[:i]+sec+s[i:]
open('/verif/seeded/RESULTS.md','w').write(s)
print(sec)
