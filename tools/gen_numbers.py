#!/usr/bin/env python3
"""Rewrites the measured-numbers table in DESIGN.md §8.3 from /verif/evidence/*.json."""
import json, os, re
HERE = os.path.dirname(os.path.dirname(os.path.abspath(__file__)))
rows = ["| property | tier / profiles | jobs | generated cases | oracle comparisons | distinct non-trivial | exhaustive parts | check wall (incl. build check) |", "|---|---|---|---|---|---|---|---|"]
for i in range(1, 21):
    p = "C%02d" % i
    e = json.load(open(os.path.join(HERE, "evidence", p + ".json")))
    c = e["coverage"]
    rows.append("| %s | %s / %s | %d | %s | %.1f M | %s | %d | %.0f s |" % (p, e["tier"], " + ".join(c["profiles"]), c.get("jobs", 0),
                f"{c['evaluations']:,}".replace(",", " "), c["oracle_comparisons"] / 1e6, f"{c['distinct_nontrivial']:,}".replace(",", " "), len(c.get("exhaustive_parts", [])), e["wall_s"]))
table = "\n".join(rows)
s = open(os.path.join(HERE, "DESIGN.md")).read()
start = s.index("| property | ", s.index("### 8.3 Measured numbers"))
end = s.index("\n\n", start)
s = s[:start] + table + s[end:]
open(os.path.join(HERE, "DESIGN.md"), "w").write(s)
print(table)
